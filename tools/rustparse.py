#!/usr/bin/env python3
"""A small lexer and recursive-descent parser for the subset of Rust that kampersanda/sucds is written in.

It parses *whole files* (every file under /repo/src must parse, see `python3 tools/rustparse.py /repo/src`), so a
construct the translator does not support is reported where it is used, not as a parse failure somewhere else.
The AST is made of tuples whose first component is a tag; see the grammar functions for the shapes."""
import re, sys, os

class ParseError(Exception):
    pass

KEYWORDS = {'as', 'break', 'const', 'continue', 'crate', 'else', 'enum', 'extern', 'false', 'fn', 'for', 'if', 'impl', 'in',
            'let', 'loop', 'match', 'mod', 'move', 'mut', 'pub', 'ref', 'return', 'self', 'Self', 'static', 'struct', 'super',
            'trait', 'true', 'type', 'unsafe', 'use', 'where', 'while', 'dyn'}

PUNCT = ['<<=', '>>=', '...', '..=', '::', '->', '=>', '==', '!=', '<=', '>=', '&&', '||', '+=', '-=', '*=', '/=', '%=', '^=', '&=', '|=',
         '<<', '>>', '..', '+', '-', '*', '/', '%', '^', '!', '&', '|', '=', '<', '>', '@', '.', ',', ';', ':', '#', '$', '?', '(', ')', '[', ']',
         '{', '}', '_']

MACROS = {}      # macro_rules definitions with a single identifier parameter, by name (per process)

class Tok:
    __slots__ = ('kind', 'val', 'line', 'suffix')
    def __init__(self, kind, val, line, suffix=None):
        self.kind = kind; self.val = val; self.line = line; self.suffix = suffix
    def __repr__(self):
        return '%s:%r@%d' % (self.kind, self.val, self.line)

def lex(src):
    toks = []; i = 0; n = len(src); line = 1
    while i < n:
        c = src[i]
        if c == '\n': line += 1; i += 1; continue
        if c.isspace(): i += 1; continue
        if src.startswith('//', i):
            j = src.find('\n', i); i = n if j < 0 else j; continue
        if src.startswith('/*', i):
            depth = 1; j = i + 2
            while j < n and depth:
                if src.startswith('/*', j): depth += 1; j += 2
                elif src.startswith('*/', j): depth -= 1; j += 2
                else:
                    if src[j] == '\n': line += 1
                    j += 1
            i = j; continue
        if c == '"' or (c in 'br' and re.match(r'b?r?#*"', src[i:])):
            m = re.match(r'(b?)(r?)(#*)"', src[i:])
            raw = bool(m.group(2)); hashes = m.group(3); j = i + m.end()
            buf = []
            while True:
                if j >= n: raise ParseError('unterminated string at line %d' % line)
                if src[j] == '"' and src.startswith('"' + hashes, j):
                    j += 1 + len(hashes); break
                if src[j] == '\\' and not raw:
                    buf.append(src[j:j + 2]); j += 2; continue
                if src[j] == '\n': line += 1
                buf.append(src[j]); j += 1
            toks.append(Tok('str', ''.join(buf), line)); i = j; continue
        if c == "'":
            m = re.match(r"'(\\.|\\x[0-9a-fA-F]{2}|\\u\{[0-9a-fA-F]+\}|[^'\\])'", src[i:])
            if m:
                toks.append(Tok('char', m.group(1), line)); i += m.end(); continue
            m = re.match(r"'[A-Za-z_][A-Za-z0-9_]*", src[i:])
            if m:
                toks.append(Tok('lifetime', m.group(0), line)); i += m.end(); continue
            raise ParseError('bad quote at line %d' % line)
        if c.isdigit():
            m = re.match(r'0x[0-9a-fA-F_]+|0b[01_]+|0o[0-7_]+|[0-9][0-9_]*(\.[0-9][0-9_]*)?([eE][+-]?[0-9]+)?', src[i:])
            txt = m.group(0); j = i + m.end()
            # `1..2` must not lex as the float `1.`; the regexp above requires a digit after the dot
            sm = re.match(r'(usize|isize|u8|u16|u32|u64|u128|i8|i16|i32|i64|i128|f32|f64)', src[j:])
            suffix = None
            if sm: suffix = sm.group(1); j += sm.end()
            t = txt.replace('_', '')
            if '.' in t or (('e' in t.lower()) and not t.startswith('0x')):
                toks.append(Tok('float', t, line, suffix))
            else:
                toks.append(Tok('int', int(t, 0) if not t.startswith('0o') else int(t[2:], 8), line, suffix))
            i = j; continue
        if c.isalpha() or c == '_':
            m = re.match(r'[A-Za-z_][A-Za-z0-9_]*', src[i:])
            w = m.group(0)
            if w == '_':
                toks.append(Tok('punct', '_', line))
            else:
                toks.append(Tok('ident', w, line))
            i += m.end(); continue
        for p in PUNCT:
            if src.startswith(p, i):
                toks.append(Tok('punct', p, line)); i += len(p); break
        else:
            raise ParseError('unexpected character %r at line %d' % (c, line))
    toks.append(Tok('eof', None, line))
    return toks

BINPREC = {  # binary operator -> precedence (higher binds tighter)
    '*': 12, '/': 12, '%': 12, '+': 11, '-': 11, '<<': 10, '>>': 10, '&': 9, '^': 8, '|': 7,
    '==': 6, '!=': 6, '<': 6, '>': 6, '<=': 6, '>=': 6, '&&': 5, '||': 4,
}
ASSIGN_OPS = {'=', '+=', '-=', '*=', '/=', '%=', '^=', '&=', '|=', '<<=', '>>='}

class Parser:
    def __init__(self, toks, fname='<src>'):
        self.t = toks; self.p = 0; self.fname = fname

    # ---- token helpers
    def peek(self, k=0): return self.t[min(self.p + k, len(self.t) - 1)]
    def at(self, val, k=0):
        t = self.peek(k); return t.kind in ('punct', 'ident') and t.val == val
    def at_ident(self, k=0):
        t = self.peek(k); return t.kind == 'ident' and t.val not in KEYWORDS
    def next(self):
        t = self.t[self.p]; self.p += 1; return t
    def accept(self, val):
        if self.at(val): self.p += 1; return True
        return False
    def expect(self, val):
        if not self.at(val):
            raise ParseError('%s:%d: expected %r, found %r' % (self.fname, self.peek().line, val, self.peek().val))
        return self.next()
    def ident(self):
        t = self.peek()
        if t.kind != 'ident': raise ParseError('%s:%d: expected identifier, found %r' % (self.fname, t.line, t.val))
        return self.next().val
    def err(self, msg):
        raise ParseError('%s:%d: %s (at %r)' % (self.fname, self.peek().line, msg, self.peek().val))
    def split_shift(self):
        """`>>` closing two generic lists: split the token in place"""
        t = self.peek()
        if t.kind == 'punct' and t.val in ('>>', '>=', '>>='):
            rest = t.val[1:]
            self.t[self.p] = Tok('punct', '>', t.line)
            self.t.insert(self.p + 1, Tok('punct', rest, t.line))

    # ---- attributes
    def attributes(self):
        """returns list of raw attribute token lists; inner attributes `#![..]` are skipped"""
        attrs = []
        while self.at('#'):
            self.next()
            self.accept('!')
            self.expect('[')
            depth = 1; buf = []
            while depth:
                t = self.next()
                if t.kind == 'eof': self.err('unterminated attribute')
                if t.val == '[' and t.kind == 'punct': depth += 1
                elif t.val == ']' and t.kind == 'punct':
                    depth -= 1
                    if depth == 0: break
                buf.append(t)
            attrs.append(buf)
        return attrs

    @staticmethod
    def cfg_of(attrs):
        """('feature', name, positive) for #[cfg(feature = "x")] / #[cfg(not(feature = "x"))]; ('test',) ; None"""
        for a in attrs:
            s = ' '.join(str(t.val) for t in a)
            m = re.match(r'cfg \( feature = (\S+) \)$', s)
            if m: return ('feature', m.group(1), True)
            m = re.match(r'cfg \( not \( feature = (\S+) \) \)$', s)
            if m: return ('feature', m.group(1), False)
            if re.match(r'cfg \( test \)$', s): return ('test',)
        for a in attrs:
            # any other conditional compilation (debug_assertions, target_*, cfg_attr, all/any combinations) is not modelled:
            # it must not be dropped silently
            if a and a[0].val in ('cfg', 'cfg_attr'): return ('other', ' '.join(str(t.val) for t in a))
        return None

    # ---- items
    def file(self):
        items = []
        while self.peek().kind != 'eof':
            it = self.item()
            if it is not None: items.append(it)
        return items

    def visibility(self):
        if self.accept('pub'):
            if self.at('('):
                self.skip_balanced('(', ')')

    def skip_balanced(self, o, c):
        self.expect(o); depth = 1
        while depth:
            t = self.next()
            if t.kind == 'eof': self.err('unbalanced %s' % o)
            if t.kind == 'punct' and t.val == o: depth += 1
            elif t.kind == 'punct' and t.val == c: depth -= 1

    def skip_to_semi(self):
        depth = 0
        while True:
            t = self.next()
            if t.kind == 'eof': return
            if t.kind == 'punct' and t.val in '([{': depth += 1
            elif t.kind == 'punct' and t.val in ')]}': depth -= 1
            elif t.kind == 'punct' and t.val == ';' and depth == 0: return

    def skip_to_semi_or_block(self):
        """skip an item we do not translate: up to `;` at depth 0 or a balanced `{…}`"""
        depth = 0
        while True:
            t = self.peek()
            if t.kind == 'eof': return
            if t.kind == 'punct' and t.val in '([': depth += 1
            elif t.kind == 'punct' and t.val in ')]': depth -= 1
            elif t.kind == 'punct' and t.val == '{' and depth == 0:
                self.skip_balanced('{', '}'); return
            elif t.kind == 'punct' and t.val == ';' and depth == 0:
                self.next(); return
            self.next()

    def item(self):
        attrs = self.attributes()
        if self.peek().kind == 'eof': return None
        cfg = self.cfg_of(attrs)
        line = self.peek().line
        self.visibility()
        if self.at('type'):
            self.next(); name = self.ident(); self.generics_decl()
            if self.accept('='):
                ty = self.type(); self.expect(';'); return ('type', name, ty)
            self.skip_to_semi(); return None
        if self.at('use') or self.at('extern') or self.at('static'):
            self.skip_to_semi(); return None
        if self.at('macro_rules'):
            # `macro_rules! name { ($p:ident) => { body } }` (one rule, one identifier parameter) is remembered and expanded
            # at its item-position invocations; every other macro definition is skipped
            save = self.p
            try:
                self.next(); self.expect('!'); name = self.ident(); self.expect('{'); self.expect('(')
                self.expect('$'); param = self.ident(); self.expect(':'); kind = self.ident(); self.expect(')'); self.expect('=>')
                if kind != 'ident': raise ParseError('macro parameter kind')
                self.expect('{'); depth = 1; body = []
                while depth:
                    t = self.next()
                    if t.kind == 'eof': raise ParseError('unterminated macro body')
                    if t.kind == 'punct' and t.val == '{': depth += 1
                    elif t.kind == 'punct' and t.val == '}':
                        depth -= 1
                        if depth == 0: break
                    body.append(t)
                self.accept(';'); self.expect('}')
                MACROS[name] = (param, body)
                return None
            except ParseError:
                self.p = save
                self.skip_to_semi_or_block(); return None
        if self.peek().kind == 'ident' and self.at('!', 1):     # item-position macro call, e.g. compile_error!(..)
            name = self.next().val; self.next(); o = self.peek().val
            start = self.p
            self.skip_balanced(o, {'(': ')', '[': ']', '{': '}'}[o]); args = self.t[start + 1:self.p - 1]; self.accept(';')
            if name in MACROS and len(args) == 1 and args[0].kind == 'ident':
                param, body = MACROS[name]; out = []; i = 0
                while i < len(body):
                    if body[i].kind == 'punct' and body[i].val == '$' and i + 1 < len(body) and body[i + 1].val == param:
                        out.append(Tok('ident', args[0].val, body[i].line)); i += 2
                    else:
                        out.append(body[i]); i += 1
                sub = Parser(out + [Tok('eof', None, 0)], self.fname)
                items = sub.file()
                return ('mod', '__macro_%s_%s' % (name, args[0].val), items) if items else None
            return None
        if self.at('mod'):
            self.next(); name = self.ident()
            if self.accept(';'): return None
            if cfg == ('test',) or name in ('tests', 'test'):
                self.skip_balanced('{', '}'); return None
            self.expect('{'); items = []
            while not self.at('}'):
                it = self.item()
                if it is not None: items.append(it)
            self.expect('}')
            return ('mod', name, items)
        if self.at('const') and not self.at('fn', 1) and not self.at('unsafe', 1):
            self.next(); name = self.next().val
            self.expect(':'); ty = self.type()
            self.expect('='); e = self.expr(); self.expect(';')
            return ('const', name, ty, e, line)
        if self.at('struct'):
            derives = [t.val for a in attrs if a and a[0].val == 'derive' for t in a[1:] if t.kind == 'ident']
            self.next(); name = self.ident(); generics = self.generics_decl()
            if self.at('where'): self.where_clause()
            fields = []
            if self.accept(';'): return ('struct', name, generics, fields, line, derives)
            if self.at('('):
                self.next(); k = 0
                while not self.at(')'):
                    self.attributes(); self.visibility()
                    fields.append((str(k), self.type())); k += 1
                    if not self.accept(','): break
                self.expect(')'); self.accept(';')
                return ('struct', name, generics, fields, line, derives)
            self.expect('{')
            while not self.at('}'):
                self.attributes(); self.visibility()
                fn = self.ident(); self.expect(':'); ft = self.type()
                fields.append((fn, ft))
                if not self.accept(','): break
            self.expect('}')
            return ('struct', name, generics, fields, line, derives)
        if self.at('trait'):
            self.next(); name = self.ident(); self.generics_decl()
            if self.accept(':'): self.bounds()
            if self.at('where'): self.where_clause()
            self.expect('{'); items = []
            while not self.at('}'):
                it = self.item()
                if it is not None: items.append(it)
            self.expect('}')
            return ('trait', name, items, line)
        if self.at('enum') or self.at('union'):
            kind = self.next().val; name = self.ident()
            self.skip_to_semi_or_block()
            return (kind, name, line)
        if self.at('impl'):
            self.next(); generics = self.generics_decl()
            neg = self.accept('!')
            t1 = self.type(); trait = None; ty = t1
            if self.accept('for'):
                trait = t1; ty = self.type()
            if self.at('where'): self.where_clause()
            self.expect('{'); items = []
            while not self.at('}'):
                it = self.item()
                if it is not None: items.append(it)
            self.expect('}')
            return ('impl', generics, trait, ty, items, line, cfg)
        if self.at('fn') or self.at('const') or self.at('unsafe') or self.at('async'):
            quals = []
            while not self.at('fn'):
                quals.append(self.next().val)
            return self.function(attrs, quals, cfg)
        self.err('unsupported item')

    def generics_decl(self):
        """`<…>` after fn/impl/struct names: returned as a list of (name, bounds-as-text)"""
        out = []
        if not self.at('<'): return out
        self.next()
        while not self.at('>'):
            if self.peek().kind == 'lifetime':
                self.next()
                if self.accept(':'):
                    while self.peek().kind == 'lifetime' or self.at('+'): self.next()
                out.append(("'", None))
            elif self.accept('const'):
                name = self.ident(); self.expect(':'); self.type(); out.append((name, 'const'))
            else:
                name = self.ident(); bounds = None
                if self.accept(':'): bounds = self.bounds()
                if self.accept('='): self.type()
                out.append((name, bounds))
            if not self.accept(','): break
        self.split_shift(); self.expect('>')
        return out

    def bounds(self):
        bs = []
        while True:
            if self.peek().kind == 'lifetime': self.next(); bs.append("'")
            else:
                self.accept('?')
                bs.append(self.type())
            if not self.accept('+'): break
        return bs

    def where_clause(self):
        self.expect('where'); preds = []
        while not (self.at('{') or self.at(';')):
            if self.peek().kind == 'lifetime':
                self.next(); self.expect(':')
                while self.peek().kind == 'lifetime' or self.at('+'): self.next()
            else:
                ty = self.type(); self.expect(':'); preds.append((ty, self.bounds()))
            if not self.accept(','): break
        return preds

    def function(self, attrs, quals, cfg):
        line = self.peek().line
        self.expect('fn'); name = self.ident(); generics = self.generics_decl()
        self.expect('('); params = []
        while not self.at(')'):
            self.attributes()
            # self parameter forms
            if self.at('self') or (self.at('mut') and self.at('self', 1)) or (self.at('&') and (self.at('self', 1) or (self.at('mut', 1) and self.at('self', 2)) or (self.peek(1).kind == 'lifetime'))):
                if self.accept('&'):
                    if self.peek().kind == 'lifetime': self.next()
                    if self.accept('mut'): params.append(('self', 'refmut'))
                    else: params.append(('self', 'ref'))
                    self.expect('self')
                elif self.accept('mut'):
                    self.expect('self'); params.append(('self', 'mutval'))
                else:
                    self.expect('self'); params.append(('self', 'val'))
                if self.accept(':'): self.type()
            else:
                pat = self.pattern(); self.expect(':'); ty = self.type()
                params.append(('param', pat, ty))
            if not self.accept(','): break
        self.expect(')')
        ret = None
        if self.accept('->'): ret = self.type()
        where = self.where_clause() if self.at('where') else []
        body = None
        if self.accept(';'): pass
        else: body = self.block()
        return ('fn', name, generics, params, ret, body, {'quals': quals, 'cfg': cfg, 'line': line, 'where': where})

    # ---- types
    def type(self):
        if self.accept('&'):
            if self.peek().kind == 'lifetime': self.next()
            m = self.accept('mut')
            return ('ref', m, self.type())
        if self.at('&&'):
            self.next(); m = self.accept('mut'); return ('ref', False, ('ref', m, self.type()))
        if self.accept('*'):
            m = self.next().val; return ('ptr', m, self.type())
        if self.accept('('):
            ts = []
            while not self.at(')'):
                ts.append(self.type())
                if not self.accept(','): break
            self.expect(')')
            if len(ts) == 1: return ts[0]
            return ('tuple', ts)
        if self.accept('['):
            t = self.type()
            if self.accept(';'):
                n = self.expr(); self.expect(']'); return ('array', t, n)
            self.expect(']'); return ('slice', t)
        if self.accept('impl') or self.accept('dyn'):
            return ('impl', self.bounds())
        if self.accept('!'): return ('never',)
        if self.accept('_'): return ('infer',)
        if self.at('fn') or self.at('unsafe'):
            self.accept('unsafe'); self.expect('fn'); self.expect('('); args = []
            while not self.at(')'):
                args.append(self.type())
                if not self.accept(','): break
            self.expect(')'); r = None
            if self.accept('->'): r = self.type()
            return ('fnptr', args, r)
        if self.accept('<'):   # <T as Trait>::Name
            t = self.type(); tr = None
            if self.accept('as'): tr = self.type()
            self.split_shift(); self.expect('>')
            segs = []
            while self.accept('::'): segs.append(self.ident())
            return ('qpath', t, tr, segs)
        return self.type_path()

    def type_path(self):
        segs = []; args = []
        self.accept('::')
        while True:
            segs.append(self.ident())
            if self.at('<') :
                args = self.generic_args()
            elif self.at('::') and self.at('<', 1):
                self.next(); args = self.generic_args()
            if self.at('(') and segs[-1] in ('Fn', 'FnMut', 'FnOnce'):
                self.next(); a = []
                while not self.at(')'):
                    a.append(self.type())
                    if not self.accept(','): break
                self.expect(')'); r = None
                if self.accept('->'): r = self.type()
                args = [('fnsig', a, r)]
            if self.at('::') and self.peek(1).kind == 'ident':
                self.next(); continue
            break
        return ('path', segs, args)

    def generic_args(self):
        self.expect('<'); args = []
        while not (self.at('>') or self.at('>>') or self.at('>=') or self.at('>>=')):
            if self.peek().kind == 'lifetime': self.next(); args.append(("'",))
            elif self.peek().kind == 'ident' and self.at('=', 1):
                n = self.ident(); self.next(); args.append(('assoc', n, self.type()))
            elif self.peek().kind == 'int': args.append(('int', self.next().val))
            else: args.append(self.type())
            if not self.accept(','): break
        self.split_shift(); self.expect('>')
        return args

    # ---- patterns
    def pattern(self):
        p = self.pattern1()
        if self.at('|'):
            alts = [p]
            while self.accept('|'): alts.append(self.pattern1())
            return ('por', alts)
        return p

    def pattern1(self):
        if self.accept('_'): return ('pwild',)
        if self.accept('&'):
            self.accept('mut'); return ('pref', self.pattern1())
        if self.accept('('):
            ps = []
            while not self.at(')'):
                ps.append(self.pattern())
                if not self.accept(','): break
            self.expect(')')
            if len(ps) == 1: return ps[0]
            return ('ptuple', ps)
        if self.accept('['):
            ps = []
            while not self.at(']'):
                ps.append(self.pattern())
                if not self.accept(','): break
            self.expect(']'); return ('pslice', ps)
        if self.peek().kind in ('int', 'str', 'char') or self.at('true') or self.at('false') or (self.at('-') and self.peek(1).kind == 'int'):
            lo = self.literal_pat()
            if self.at('..=') or self.at('..'):
                inc = self.next().val == '..='
                hi = self.literal_pat() if (self.peek().kind in ('int', 'char') or self.at('-')) else None
                return ('prange', lo, hi, inc)
            return ('plit', lo)
        byref = self.accept('ref'); mut = self.accept('mut')
        if byref or mut:
            return ('pid', self.ident(), mut, byref)
        # path or identifier
        segs = [self.ident()]
        while self.at('::'):
            self.next(); segs.append(self.ident())
        if self.at('('):
            self.next(); ps = []
            while not self.at(')'):
                ps.append(self.pattern())
                if not self.accept(','): break
            self.expect(')')
            return ('ptstruct', segs, ps)
        if self.at('{'):
            self.next(); fs = []
            while not self.at('}'):
                if self.accept('..'): break
                fn = self.ident()
                if self.accept(':'): fs.append((fn, self.pattern()))
                else: fs.append((fn, ('pid', fn, False, False)))
                if not self.accept(','): break
            self.expect('}')
            return ('pstruct', segs, fs)
        if len(segs) == 1 and (segs[0][0].islower() or segs[0][0] == '_'):
            if self.accept('@'):
                return ('pbind', segs[0], self.pattern1())
            return ('pid', segs[0], False, False)
        return ('ppath', segs)

    def literal_pat(self):
        neg = self.accept('-')
        t = self.next()
        if t.kind == 'int': return ('int', -t.val if neg else t.val, t.suffix)
        if t.kind == 'str': return ('str', t.val)
        if t.kind == 'char': return ('char', t.val)
        if t.val in ('true', 'false'): return ('bool', t.val == 'true')
        self.err('bad literal pattern')

    # ---- statements and blocks
    def block(self):
        self.expect('{')
        self.attributes_inner()
        stmts = []; tail = None
        while not self.at('}'):
            if self.accept(';'): continue
            attrs = self.attributes()
            cfg = self.cfg_of(attrs)
            if self.at('let'):
                self.next(); pat = self.pattern(); ty = None; init = None; els = None
                if self.accept(':'): ty = self.type()
                if self.accept('='): init = self.expr()
                if self.accept('else'): els = self.block()
                self.expect(';')
                if cfg is not None: stmts.append(('expr', ('cfg', cfg, ('block', [('let', pat, ty, init, els)], None)), True)); continue
                stmts.append(('let', pat, ty, init, els)); continue
            if self.at('use') or self.at('const') and not self.at('fn', 1) or self.at('struct') or self.at('fn') or self.at('impl') or self.at('enum') or self.at('static'):
                it = self.item()
                stmts.append(('item', it)); continue
            if cfg is not None and self.at('{'):
                b = self.block()
                e = ('cfg', cfg, b)
                if self.at('}'): tail = e; break
                self.accept(';')
                stmts.append(('expr', e, True)); continue
            e = self.expr_stmt()
            if cfg is not None: e = ('cfg', cfg, e)
            if self.accept(';'):
                stmts.append(('expr', e, True))
            elif self.at('}'):
                tail = e
            elif self.blocklike(e):
                stmts.append(('expr', e, False))
            else:
                self.err('expected `;` or `}` after expression')
        self.expect('}')
        return ('block', stmts, tail)

    def attributes_inner(self):
        while self.at('#') and self.at('!', 1):
            self.attributes()

    @staticmethod
    def blocklike(e):
        if e[0] == 'cfg': return True
        return e[0] in ('if', 'iflet', 'match', 'while', 'whilelet', 'loop', 'for', 'block', 'unsafe')

    def expr_stmt(self):
        # block-like expressions at statement position end the statement without `;`
        t = self.peek()
        if t.kind == 'ident' and t.val in ('if', 'match', 'while', 'loop', 'for') or self.at('{') or (self.at('unsafe') and self.at('{', 1)) \
                or (t.kind == 'lifetime' and self.at(':', 1)):
            e = self.primary(False)
            # a block-like expression followed by a method call / `?` continues as an expression
            if self.at('.') or self.at('?'):
                e = self.postfix(e, False)
                return self.binary_rest(e, 0, False)
            return e
        return self.expr()

    # ---- expressions
    def expr(self, no_struct=False):
        return self.assignment(no_struct)

    def assignment(self, ns):
        if self.at('return'):
            self.next()
            if self.at(';') or self.at('}') or self.at(',') or self.at(')'): return ('return', None)
            return ('return', self.expr(ns))
        if self.at('break'):
            self.next()
            if self.peek().kind == 'lifetime': self.next()
            if self.at(';') or self.at('}') or self.at(',') or self.at(')'): return ('break', None)
            return ('break', self.expr(ns))
        if self.at('continue'):
            self.next()
            if self.peek().kind == 'lifetime': self.next()
            return ('continue',)
        if self.at('|') or self.at('||') or (self.at('move') and (self.at('|', 1) or self.at('||', 1))):
            return self.closure(ns)
        lhs = self.range_expr(ns)
        t = self.peek()
        if t.kind == 'punct' and t.val in ASSIGN_OPS:
            op = self.next().val
            rhs = self.assignment(ns)
            return ('assign', op, lhs, rhs)
        return lhs

    def closure(self, ns):
        self.accept('move'); params = []
        if self.accept('||'): pass
        else:
            self.expect('|')
            while not self.at('|'):
                pat = self.pattern1(); ty = None
                if self.accept(':'): ty = self.type()
                params.append((pat, ty))
                if not self.accept(','): break
            self.expect('|')
        if self.accept('->'):
            self.type(); body = self.block()
        else:
            body = self.expr(ns)
        return ('closure', params, body)

    def range_expr(self, ns):
        if self.at('..') or self.at('..='):
            inc = self.next().val == '..='
            hi = None
            if not (self.at(')') or self.at(']') or self.at(';') or self.at(',') or self.at('}') or (ns and self.at('{'))):
                hi = self.binary(0, ns)
            return ('range', None, hi, inc)
        lo = self.binary(0, ns)
        if self.at('..') or self.at('..='):
            inc = self.next().val == '..='
            hi = None
            if not (self.at(')') or self.at(']') or self.at(';') or self.at(',') or self.at('}') or self.at('{') and ns or self.at('=>')):
                if not self.at('{'):
                    hi = self.binary(0, ns)
            return ('range', lo, hi, inc)
        return lo

    def binary(self, minp, ns):
        lhs = self.unary(ns)
        return self.binary_rest(lhs, minp, ns)

    def binary_rest(self, lhs, minp, ns):
        while True:
            t = self.peek()
            if t.kind == 'ident' and t.val == 'as':
                # `as` binds tighter than every binary operator
                self.next(); ty = self.type(); lhs = ('cast', lhs, ty); continue
            if t.kind != 'punct' or t.val not in BINPREC: break
            prec = BINPREC[t.val]
            if prec < minp: break
            op = self.next().val
            rhs = self.unary(ns)
            # `as` on the right operand, then higher-precedence operators
            while True:
                t2 = self.peek()
                if t2.kind == 'ident' and t2.val == 'as':
                    self.next(); rhs = ('cast', rhs, self.type()); continue
                if t2.kind == 'punct' and t2.val in BINPREC and BINPREC[t2.val] > prec:
                    rhs = self.binary_rest(rhs, BINPREC[t2.val], ns); continue
                break
            lhs = ('binary', op, lhs, rhs)
        return lhs

    def unary(self, ns):
        t = self.peek()
        if t.kind == 'punct' and t.val in ('!', '-', '*'):
            self.next(); return ('unary', t.val, self.unary(ns))
        if t.kind == 'punct' and t.val == '&':
            self.next()
            if self.accept('mut'): return ('unary', '&mut', self.unary(ns))
            return ('unary', '&', self.unary(ns))
        if t.kind == 'punct' and t.val == '&&':
            self.next(); return ('unary', '&', ('unary', '&', self.unary(ns)))
        e = self.primary(ns)
        return self.postfix(e, ns)

    def postfix(self, e, ns):
        while True:
            if self.at('?'):
                self.next(); e = ('try', e); continue
            if self.at('.'):
                if self.peek(1).kind == 'int':
                    self.next(); e = ('field', e, str(self.next().val)); continue
                if self.peek(1).kind == 'float':   # tuple.0.1 lexed as a float
                    self.next(); a, b = self.next().val.split('.'); e = ('field', ('field', e, a), b); continue
                if self.peek(1).kind == 'ident':
                    if self.peek(1).val == 'await': self.err('await')
                    self.next(); name = self.next().val; turbofish = None
                    if self.at('::') and self.at('<', 1):
                        self.next(); turbofish = self.generic_args()
                    if self.at('('):
                        args = self.call_args(); e = ('mcall', e, name, args, turbofish); continue
                    e = ('field', e, name); continue
                break
            if self.at('('):
                e = ('call', e, self.call_args()); continue
            if self.at('['):
                self.next(); i = self.expr(); self.expect(']'); e = ('index', e, i); continue
            break
        return e

    def call_args(self):
        self.expect('('); args = []
        while not self.at(')'):
            args.append(self.expr())
            if not self.accept(','): break
        self.expect(')')
        return args

    def primary(self, ns):
        t = self.peek()
        if t.kind == 'int': self.next(); return ('int', t.val, t.suffix)
        if t.kind == 'float': self.next(); return ('float', t.val, t.suffix)
        if t.kind == 'str': self.next(); return ('str', t.val)
        if t.kind == 'char': self.next(); return ('char', t.val)
        if t.kind == 'lifetime' and self.at(':', 1):   # labelled loop
            self.next(); self.next(); return self.primary(ns)
        if self.at('true'): self.next(); return ('bool', True)
        if self.at('false'): self.next(); return ('bool', False)
        if self.at('('):
            self.next(); es = []; trailing = False
            while not self.at(')'):
                es.append(self.expr()); trailing = False
                if not self.accept(','): break
                trailing = True
            self.expect(')')
            if len(es) == 1 and not trailing: return ('paren', es[0])
            return ('tuple', es)
        if self.at('['):
            self.next(); es = []
            if self.at(']'): self.next(); return ('array', [])
            e0 = self.expr()
            if self.accept(';'):
                n = self.expr(); self.expect(']'); return ('arrayrep', e0, n)
            es.append(e0)
            while self.accept(','):
                if self.at(']'): break
                es.append(self.expr())
            self.expect(']'); return ('array', es)
        if self.at('{'):
            return self.block()
        if self.at('unsafe') and self.at('{', 1):
            self.next(); return ('unsafe', self.block())
        if self.at('if'):
            return self.if_expr()
        if self.at('match'):
            self.next(); scrut = self.expr(no_struct=True); self.expect('{'); arms = []
            while not self.at('}'):
                self.attributes()
                self.accept('|')
                pat = self.pattern(); guard = None
                if self.accept('if'): guard = self.expr()
                self.expect('=>')
                body = self.expr_stmt() if (self.at('{') or self.at('if') or self.at('match')) else self.expr()
                arms.append((pat, guard, body))
                if not self.accept(','):
                    if self.at('}'): break
                    if not self.blocklike(body): self.err('expected `,` in match')
            self.expect('}')
            return ('match', scrut, arms)
        if self.at('while'):
            self.next()
            if self.accept('let'):
                pat = self.pattern(); self.expect('='); e = self.expr(no_struct=True); b = self.block()
                return ('whilelet', pat, e, b)
            c = self.expr(no_struct=True); b = self.block(); return ('while', c, b)
        if self.at('loop'):
            self.next(); return ('loop', self.block())
        if self.at('for'):
            self.next(); pat = self.pattern(); self.expect('in'); it = self.expr(no_struct=True); b = self.block()
            return ('for', pat, it, b)
        if self.at('<'):   # qualified path expression <T as Trait>::f
            ty = self.type()
            return ('qpathexpr', ty)
        if t.kind == 'ident':
            # path expression, macro, or struct literal
            segs = []; generics = None
            self.accept('::') if False else None
            while True:
                segs.append(self.next().val)
                if self.at('::'):
                    if self.at('<', 1):
                        self.next(); generics = self.generic_args()
                        if self.at('::'): self.next(); continue
                        break
                    if self.peek(1).kind == 'ident':
                        self.next(); continue
                break
            if self.at('!') and not self.at('=', 1) and (self.at('(', 1) or self.at('[', 1) or self.at('{', 1)):
                self.next(); return self.macro(segs[-1])
            if self.at('{') and not ns and (segs[-1][0].isupper()):
                return self.struct_literal(segs)
            return ('path', segs, generics)
        self.err('unexpected token in expression')

    def if_expr(self):
        self.expect('if')
        if self.accept('let'):
            pat = self.pattern(); self.expect('='); e = self.expr(no_struct=True)
            then = self.block(); els = None
            if self.accept('else'):
                els = self.if_expr() if self.at('if') else self.block()
            return ('iflet', pat, e, then, els)
        c = self.expr(no_struct=True); then = self.block(); els = None
        if self.accept('else'):
            els = self.if_expr() if self.at('if') else self.block()
        return ('if', c, then, els)

    def struct_literal(self, segs):
        self.expect('{'); fields = []; base = None
        while not self.at('}'):
            if self.accept('..'):
                base = self.expr(); break
            fn = self.next().val
            if self.accept(':'): fields.append((fn, self.expr()))
            else: fields.append((fn, ('path', [fn], None)))
            if not self.accept(','): break
        self.expect('}')
        return ('struct', segs, fields, base)

    def macro(self, name):
        o = self.next().val; c = {'(': ')', '[': ']', '{': '}'}[o]
        start = self.p; depth = 1
        while depth:
            t = self.next()
            if t.kind == 'eof': self.err('unterminated macro')
            if t.kind == 'punct' and t.val in '([{': depth += 1
            elif t.kind == 'punct' and t.val in ')]}': depth -= 1
        inner = self.t[start:self.p - 1]
        args = None
        if name in ('debug_assert', 'assert', 'debug_assert_eq', 'assert_eq', 'debug_assert_ne', 'assert_ne', 'vec', 'matches'):
            sub = Parser(inner + [Tok('eof', None, inner[-1].line if inner else 0)], self.fname)
            args = []
            if name == 'vec' and inner:
                e0 = sub.expr()
                if sub.accept(';'):
                    args = ('rep', e0, sub.expr())
                else:
                    args = [e0]
                    while sub.accept(','):
                        if sub.peek().kind == 'eof': break
                        args.append(sub.expr())
            elif name == 'matches':
                e0 = sub.expr(); sub.expect(','); pat = sub.pattern(); args = [e0, pat]
            else:
                while sub.peek().kind != 'eof':
                    args.append(sub.expr())
                    if not sub.accept(','): break
        return ('macro', name, args, inner)


def parse_file(path):
    src = open(path).read()
    return Parser(lex(src), os.path.relpath(path)).file()

def walk_fns(items, impl=None, mod=None):
    """yield (impl_info, fn) for every function of a parsed file; impl_info = (trait, type) or None"""
    for it in items:
        if it[0] == 'fn': yield impl, it
        elif it[0] == 'impl':
            assoc = dict((x[1], x[2]) for x in it[4] if x[0] == 'type')
            yield from walk_fns(it[4], (it[2], it[3], it[1], assoc), mod)
        elif it[0] == 'mod': yield from walk_fns(it[2], impl, it[1])
        elif it[0] == 'trait': pass     # default methods are instantiated per implementing type by the translator

if __name__ == '__main__':
    root = sys.argv[1]
    n = 0; bad = 0
    for d, _, fs in os.walk(root):
        for f in sorted(fs):
            if f.endswith('.rs'):
                p = os.path.join(d, f)
                try:
                    items = parse_file(p)
                    k = sum(1 for _ in walk_fns(items)); n += k
                    print('%-50s %3d fns' % (os.path.relpath(p, root), k))
                except ParseError as e:
                    bad += 1; print('PARSE ERROR', e)
    print('functions:', n, 'files with errors:', bad)
    sys.exit(1 if bad else 0)
