#!/bin/sh
# Build the framework from files on disk only: constants, every Lean module (all theorems re-checked),
# the model driver, and the harness in the four build configurations.
set -e
cd "$(dirname "$0")/.."
export CARGO_NET_OFFLINE=true
python3 tools/gen_consts.py /repo lean/Sucds/Gen/Consts.lean
python3 tools/gen_codecs.py /repo lean/Sucds/Gen/Codecs.lean
python3 tools/gen_fns.py /repo lean/Sucds/Gen/Fns.lean
(cd lean && lake build Sucds sucds_model)
python3 - <<'PY'
import sys
sys.path.insert(0, 'tools')
import check
bins, errs = check.build_harness(check.ALL_CONFIGS)
if errs:
    print('harness build failed:', errs); sys.exit(1)
print('harness built:', ', '.join(sorted(bins)))
PY
