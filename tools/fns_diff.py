#!/usr/bin/env python3
"""compare two generated Fns.lean files definition by definition: prints names whose text changed / disappeared / appeared"""
import sys, re
def defs(p):
    out = {}; cur = None
    for l in open(p):
        m = re.match(r'(?:@\[reducible\] )?(?:def|structure) (\S+)', l)
        if m: cur = m.group(1); out[cur] = ''
        if cur: out[cur] += l
        if not l.strip(): cur = None
    return out
a, b = defs(sys.argv[1]), defs(sys.argv[2])
ch = [n for n in a if n in b and a[n] != b[n]]; gone = [n for n in a if n not in b]; new = [n for n in b if n not in a]
print('changed:', ch); print('gone:', gone); print('new:', len(new), new[:60])
sys.exit(1 if ch or gone else 0)
