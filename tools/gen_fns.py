#!/usr/bin/env python3
"""Function-body translator: Rust (the subset sucds is written in) -> Lean 4 definitions over `Sucds/Model/RustSem.lean`.

  tools/gen_fns.py /repo lean/Sucds/Gen/Fns.lean [--report FILE]

Every function of the files listed in FILES is translated when it stays inside the supported subset; a function
that does not is *not emitted* (and listed in the report), so a theorem that mentions it stops checking — a broken
obligation, never a silently stale definition.  The translation is syntax-directed:

  usize arithmetic `+ - * << >>`   -> checked operations `cadd/csub/cmul/cshl/cshr c` (panic iff `c.checked`, else wrap)
  `/ %` by a variable              -> `RS.cdiv/crem` (panic on zero);  by a non-zero literal/constant -> `/ %`
  `v[i]`, `v[i] = x`               -> `RS.index`, `RS.setIndex` (panic out of bounds)
  `.unwrap()`, `debug_assert!`     -> `RS.unwrap`, `dassert c`
  `#[cfg(feature = "intrinsics")]` -> `if c.intrinsics then … else …`
  `let mut` / assignment           -> shadowing `let`;  `&mut self` -> the new `self` is returned with the result
  `if`/`match`/early `return`      -> `if`/`match` with the continuation placed in the branches (or joined by a tuple)
  `for i in a..b`, `while`, `loop` -> `RS.forRange`, `RS.whileLoop`, `RS.loopB` (+ `break`/`return` via `RS.Step`)

Sequencing is explicit `Except.bind` (no `do` notation) so that the equivalence proofs unfold cleanly."""
import sys, os, re, hashlib, json
sys.path.insert(0, os.path.dirname(os.path.abspath(__file__)))
from rustparse import parse_file, ParseError, walk_fns

def rust_expr(src, **subst):
    """parse a Rust expression; identifiers named in `subst` are replaced by the given ASTs"""
    from rustparse import Parser, lex
    e = Parser(lex(src), '<desugar>').expr()
    def rep(n):
        if isinstance(n, tuple):
            if len(n) >= 2 and n[0] == 'path' and isinstance(n[1], list) and len(n[1]) == 1 and n[1][0] in subst: return subst[n[1][0]]
            if len(n) >= 2 and n[0] == 'pid' and n[1] in subst and subst[n[1]][0] == 'pat': return subst[n[1]][1]
            return tuple(rep(x) for x in n)
        if isinstance(n, list): return [rep(x) for x in n]
        return n
    return rep(e)

class Unsupported(Exception):
    pass
class Impure(Exception):
    pass

# ------------------------------------------------------------------------------------------------
# configuration: which files, how Rust structs map onto the model's structures

FILES = [  # (path, module name used for free functions and constants)
    ('src/broadword.rs', 'broadword'),
    ('src/intrinsics.rs', 'intrinsics'),
    ('src/utils.rs', 'utils'),
    ('src/bit_vectors/bit_vector.rs', 'bit_vector'),
    ('src/bit_vectors/bit_vector/unary.rs', 'unary'),
    ('src/bit_vectors/rank9sel/inner.rs', 'rank9sel_inner'),
    ('src/int_vectors/compact_vector.rs', 'compact_vector'),
    ('src/mii_sequences/elias_fano.rs', 'elias_fano'),
    ('src/mii_sequences/elias_fano/iter.rs', 'iter'),
    ('src/bit_vectors.rs', 'bit_vectors'),
    ('src/int_vectors.rs', 'int_vectors'),
    ('src/bit_vectors/rank9sel.rs', 'rank9sel'),
    ('src/bit_vectors/darray/inner.rs', 'darray_inner'),
    ('src/bit_vectors/darray.rs', 'darray'),
    ('src/bit_vectors/sarray.rs', 'sarray'),
    ('src/int_vectors/prefix_summed_elias_fano.rs', 'psef'),
    ('src/int_vectors/dacs_byte.rs', 'dacs_byte'),
    ('src/int_vectors/dacs_opt.rs', 'dacs_opt'),
    ('src/char_sequences/wavelet_matrix.rs', 'wavelet_matrix'),
]

# Rust struct -> (Lean structure, {rust field: lean field})
STRUCTS = {
    'BitVector': ('Sucds.BV', {'words': 'words', 'len': 'len'}),
    'Rank9SelIndex': ('Sucds.R9Index', {'len': 'len', 'block_rank_pairs': 'pairs', 'select1_hints': 'sel1', 'select0_hints': 'sel0'}),
    'Rank9Sel': ('Sucds.R9', {'bv': 'bv', 'rs': 'rs'}),
    'DArrayIndex': ('Sucds.DAIndex', {'block_inventory': 'blockInv', 'subblock_inventory': 'subInv', 'overflow_positions': 'overflow', 'num_positions': 'numPos', 'over_one': 'overOne'}),
    'SArray': ('Sucds.SA', {'ef': 'ef', 'num_bits': 'numBits', 'num_ones': 'numOnes', 'has_rank': 'hasRank'}),
    'PrefixSummedEliasFano': ('Sucds.PS', {'ef': 'ef'}),
    'DacsByte': ('Sucds.DacB', {'data': 'data', 'flags': 'flags'}),
    'DacsOpt': ('Sucds.DacO', {'data': 'data', 'flags': 'flags'}),
    'EliasFano': ('Sucds.EF', {'high_bits': 'high', 'low_bits': 'low', 'low_len': 'lowLen', 'universe': 'univ'}),
    'DArray': ('Sucds.DA', {'bv': 'bv', 's1': 's1', 's0': 's0', 'r9': 'r9'}),
    'CompactVector': ('Sucds.CV', {'chunks': 'chunks', 'len': 'len', 'width': 'width'}),
    'EliasFanoBuilder': ('Sucds.EFB', {'high_bits': 'high', 'low_bits': 'low', 'universe': 'univ', 'num_vals': 'numVals', 'pos': 'pos', 'last': 'last', 'low_len': 'lowLen'}),
}
# table constants that gen_consts.py already extracts (as `List Nat`)
# generic structures are translated once per listed instantiation of their type parameter
INSTANTIATE = {'WaveletMatrix': ('B', ['Rank9Sel', 'DArray', 'BitVector']), 'wavelet_matrix_Iter': ('B', ['Rank9Sel', 'DArray', 'BitVector'])}
# an iterator handed to an `impl IntoIterator<Item = T>` parameter is the list of its items; configured per constructor
ITER_AS_LIST = {('BitVector', 'iter'): ('Sucds.BV.toList', ('list', 'bool'))}
TABLES = {'SELECT_IN_BYTE': 'Gen.SELECT_IN_BYTE.toArray', 'DEBRUIJN64_MAPPING': 'Gen.DEBRUIJN64_MAPPING.toArray'}

SKIP_FNS = {'serialize_into', 'deserialize_from', 'size_in_bytes', 'size_of', 'fmt', 'capacity', 'shrink_to_fit'}

INT_TYPES = {'usize', 'u64', 'u32', 'u16', 'u8', 'u128'}

# ------------------------------------------------------------------------------------------------
# types:  'usize' | 'bool' | 'unit' | ('opt', T) | ('res', T) | ('vec', T) | ('tuple', [T]) | ('struct', Name) | ('list', T) | None (unknown)

def conv_type(t, ctx=None):
    """AST type -> translator type"""
    if t is None: return 'unit'
    tag = t[0]
    if tag == 'ref': return conv_type(t[2], ctx)
    if tag == 'tuple':
        if not t[1]: return 'unit'
        return ('tuple', [conv_type(x, ctx) for x in t[1]])
    if tag == 'slice': return ('vec', conv_type(t[1], ctx))
    if tag == 'array': return ('vec', conv_type(t[1], ctx))
    if tag == 'path':
        segs, args = t[1], t[2]
        n = segs[-1]
        if len(segs) == 2 and segs[0] == 'Self' and ctx is not None and n in getattr(ctx, 'assoc', {}):
            return conv_type(ctx.assoc[n], ctx)
        if n in INT_TYPES: return 'usize'
        if n == 'bool': return 'bool'
        if n == 'Option': return ('opt', conv_type(args[0], ctx))
        if n == 'Result': return ('res', conv_type(args[0], ctx))
        if n == 'Vec': return ('vec', conv_type(args[0], ctx) if args else None)
        if n == 'Range': return 'range'
        if n == 'Self' and ctx is not None and ctx.owner: return ('struct', ctx.owner)
        if ctx is not None and n in ctx.generic_lists: return ('list', ctx.generic_lists[n])
        if ctx is not None and n in getattr(ctx, 'generic_prims', ()): return 'usize'
        if n == 'isize': return 'isize'
        if n in ('i64', 'i32', 'f64', 'f32'): raise Unsupported('type %s' % n)
        if ctx is not None:
            q = ctx.crate.qual(ctx.module, n)
            if q in INSTANTIATE and args:
                a0 = [a for a in args if a and a[0] != "'"]
                if a0 and a0[0][0] == 'path': return ('struct', '%s_%s' % (q, a0[0][1][-1]))
            return ('struct', q)
        return ('struct', n)
    if tag == 'infer': return None
    if tag == 'impl': raise Unsupported('impl-trait type')
    raise Unsupported('type %r' % (t,))

def lean_type(t):
    if t == 'usize': return 'Nat'
    if t == 'bool': return 'Bool'
    if t == 'isize': return 'Int'
    if t == 'range': return '(Nat × Nat)'
    if t == 'unit': return 'Unit'
    if t is None: raise Unsupported('unknown type')
    if t[0] == 'opt': return '(Option %s)' % lean_type(t[1])
    if t[0] == 'res': return '(RS.Res %s)' % lean_type(t[1])
    if t[0] == 'vec': return '(Array %s)' % lean_type(t[1])
    if t[0] == 'list': return '(List %s)' % lean_type(t[1])
    if t[0] == 'tuple': return '(' + ' × '.join(lean_type(x) for x in t[1]) + ')'
    if t[0] == 'struct':
        if t[1] in STRUCTS: return STRUCTS[t[1]][0]
        if CRATE is not None and CRATE.auto_struct(t[1]): return t[1]
        raise Unsupported('struct %s has no model structure' % t[1])
    raise Unsupported('type %r' % (t,))

CRATE = None
LEAN_RESERVED = {'c', 'fun', 'let', 'if', 'then', 'else', 'match', 'with', 'do', 'at', 'from', 'end', 'in', 'open', 'def', 'show', 'have', 'by',
                 'universe', 'variable', 'theorem', 'structure', 'instance', 'class', 'namespace', 'section', 'example', 'where', 'deriving',
                 'extends', 'import', 'export', 'axiom', 'inductive', 'abbrev', 'attribute', 'private', 'protected', 'partial', 'unsafe', 'mutual',
                 'macro', 'syntax', 'notation', 'prefix', 'infix', 'postfix', 'local', 'scoped', 'nomatch', 'nofun', 'calc', 'then', 'using', 'Type', 'Prop', 'Sort', 'set_option', 'noncomputable', 'opaque', 'return', 'for', 'unless', 'try', 'catch', 'finally', 'mut', 'break', 'continue', 'this', 'suffices', 'obtain', 'exact', 'R'}
def lean_ident(n):
    n = re.sub(r'[^A-Za-z0-9_]', '_', n) or 't'
    return n + '_' if n in LEAN_RESERVED else n

def indent(s, n=2):
    pad = ' ' * n
    return '\n'.join(pad + l if l else l for l in s.split('\n'))

def paren(s):
    s2 = s.strip()
    if re.match(r'^[A-Za-z_][A-Za-z0-9_.\']*$', s2) or re.match(r'^[0-9]+$', s2): return s2
    if s2.startswith('(') and matching_paren(s2) == len(s2) - 1: return s2
    if '\n' in s2: return '(' + s2 + ')'
    return '(' + s2 + ')'

def matching_paren(s):
    d = 0
    for i, ch in enumerate(s):
        if ch == '(': d += 1
        elif ch == ')':
            d -= 1
            if d == 0: return i
    return -1

# ------------------------------------------------------------------------------------------------
# the crate-level symbol table

def subst_ast(node, var, rep):
    """replace the type parameter `var` by the type name `rep` everywhere in an AST (types and path expressions)"""
    if isinstance(node, tuple):
        if len(node) >= 2 and node[0] == 'path' and isinstance(node[1], list) and node[1] and node[1][0] == var:
            return ('path', [rep] + node[1][1:]) + tuple(subst_ast(x, var, rep) for x in node[2:])
        return tuple(subst_ast(x, var, rep) for x in node)
    if isinstance(node, list): return [subst_ast(x, var, rep) for x in node]
    if isinstance(node, dict): return dict((k, subst_ast(v, var, rep)) for k, v in node.items())
    return node

class FnInfo:
    def __init__(self, ast, impl, module, path, crate=None):
        self.ast = ast; self.name = ast[1]; self.module = module; self.path = path
        self.trait = None; self.owner = None; self.impl_generics = []
        self.assoc = {}
        if impl is not None:
            tr, ty, gens = impl[:3]
            self.assoc = impl[3] if len(impl) > 3 else {}
            self.owner = ty[1][-1] if ty[0] == 'path' else None
            if self.owner and crate is not None: self.owner = crate.qual(module, self.owner)
            self.trait = tr[1][-1] if tr is not None and tr[0] == 'path' else None
            self.impl_generics = gens
        self.meta = ast[6]
        self.lean_name = None     # set when emitted
        self.pure = None; self.ret_t = None; self.inouts = None; self.params_t = None
        self.state = 'new'        # new | busy | done | failed
        self.recursive = False
        self.error = None; self.text = None
    def key(self):
        return (self.owner or self.module, self.name)

class Crate:
    def __init__(self, repo):
        global CRATE
        CRATE = self
        self.repo = repo; self.fns = {}; self.by_name = {}; self.consts = {}; self.structs = {}; self.order = []; self.struct_order = {}; self.derives = {}
        self.struct_modules = {}; self.struct_ast = {}; self.ftypes = {}; self.auto_used = []; self.imports = {}
        self.parse_errors = []
        parsed = []
        for path, module in FILES:
            try:
                items = parse_file(os.path.join(repo, path))
            except (ParseError, OSError) as e:
                self.parse_errors.append('%s: %s' % (path, e)); continue
            parsed.append((items, module, path))
            self.collect_structs(items, module)
            src = open(os.path.join(repo, path)).read()
            for m in re.finditer(r'\buse\s+([\w:]+)::(\w+|\{[^}]*\})\s*;', src):
                names = [x.strip() for x in m.group(2).strip('{}').split(',')] if m.group(2).startswith('{') else [m.group(2)]
                for n in names:
                    if n: self.imports[(module, n)] = m.group(1).split('::')
        for (module, name), it in self.struct_ast.items():
            q = self.qual(module, name)
            self.structs[q] = dict((f, t) for f, t in it[3]); self.struct_order[q] = [f for f, _ in it[3]]; self.derives[q] = it[5]
            self.struct_home = getattr(self, 'struct_home', {}); self.struct_home[q] = module
        for q in list(self.structs):
            if q in INSTANTIATE:
                var, reps = INSTANTIATE[q]
                for rep in reps:
                    qi = '%s_%s' % (q, rep)
                    self.structs[qi] = dict((f, subst_ast(t, var, rep)) for f, t in self.structs[q].items())
                    self.struct_order[qi] = self.struct_order[q]; self.derives[qi] = self.derives[q]; self.struct_home[qi] = self.struct_home[q]
        self.traits = {}; self.impls = []
        for items, module, path in parsed:
            self.collect(items, module, path)
        # default methods of traits, instantiated for every implementing type that does not override them
        for module, path, it in self.impls:
            tname = it[2][1][-1] if it[2][0] == 'path' else None
            if tname not in self.traits: continue
            tmod, tpath, tr = self.traits[tname]
            have = set(x[1] for x in it[4] if x[0] == 'fn')
            assoc = dict((x[1], x[2]) for x in it[4] if x[0] == 'type')
            for f in tr[2]:
                if f[0] == 'fn' and f[5] is not None and f[1] not in have:
                    fi = FnInfo(f, (it[2], it[3], it[1], assoc), module, tpath, self)
                    fi.trait = tname
                    k = fi.key()
                    if k in self.fns: k = (k[0], tname + '_' + fi.name)
                    fi.k = k; self.fns[k] = fi; self.by_name.setdefault(fi.name, []).append(fi)
    def collect_structs(self, items, module):
        for it in items:
            if it[0] == 'struct':
                self.struct_modules.setdefault(it[1], []).append(module); self.struct_ast[(module, it[1])] = it
            elif it[0] == 'mod': self.collect_structs(it[2], module)
    def qual(self, module, name):
        ms = self.struct_modules.get(name, [])
        if len(ms) <= 1: return name
        if module in ms: return '%s_%s' % (module, name)
        imp = self.imports.get((module, name))
        if imp:
            for seg in reversed(imp):
                for m in ms:
                    if m == seg or m.endswith('_' + seg): return '%s_%s' % (m, name)
        return '%s_%s' % (ms[0], name)
    def ftype(self, q, f):
        """converted type of field `f` of struct `q` (in the struct's own module context)"""
        key = (q, f)
        if key not in self.ftypes:
            class C: pass
            c = C(); c.crate = self; c.module = self.struct_home[q]; c.owner = q; c.generic_lists = {}; c.generic_prims = set()
            self.ftypes[key] = conv_type(self.structs[q][f], c)
        return self.ftypes[key]
    def auto_fields(self, q):
        """field names of a generated structure: a field that shares its name with a method gets a trailing `_`"""
        return dict((f, f + '_' if self.lookup(q, f) is not None else f) for f in self.struct_order[q])
    def auto_struct(self, q):
        """a struct without a model counterpart gets a generated Lean structure (same field names)"""
        if q in STRUCTS: return False
        if q not in self.structs: return False
        if q in self.auto_used: return True
        if q in getattr(self, '_auto_busy', set()): return False
        self._auto_busy = getattr(self, '_auto_busy', set()) | {q}
        try:
            for f in self.struct_order[q]: lean_type(self.ftype(q, f))
        except Unsupported:
            return False
        finally:
            self._auto_busy = self._auto_busy - {q}
        self.auto_used.append(q)
        return True
    def collect(self, items, module, path):
        for it in items:
            if it[0] == 'const':
                self.consts[(module, it[1])] = it
            elif it[0] == 'mod':
                self.collect(it[2], module, path)
            elif it[0] == 'trait':
                self.traits[it[1]] = (module, path, it)
            elif it[0] == 'impl' and it[2] is not None:
                self.impls.append((module, path, it))
        fns = []
        for impl, f in walk_fns(items):
            if f[5] is None: continue
            q = self.qual(module, impl[1][1][-1]) if impl is not None and impl[1][0] == 'path' else None
            if q in INSTANTIATE:
                var, reps = INSTANTIATE[q]
                for rep in reps:
                    fi = FnInfo(subst_ast(f, var, rep), subst_ast(impl, var, rep), module, path, self)
                    fi.owner = '%s_%s' % (q, rep); fns.append(fi)
            else:
                fns.append(FnInfo(f, impl, module, path, self))
        for fi in fns:
            k = fi.key()
            if k in self.fns:
                # inherent method and trait method of the same name, or cfg-duplicates: qualify by trait
                k = (k[0], (fi.trait or 'x') + '_' + fi.name)
            fi.k = k
            self.fns[k] = fi
            self.by_name.setdefault(fi.name, []).append(fi)
    def lookup(self, owner, name):
        """method `name` on type/module `owner` (inherent first, then any trait impl)"""
        fi = self.fns.get((owner, name))
        if fi is not None: return fi
        for f in self.by_name.get(name, []):
            if f.owner == owner or (f.owner is None and f.module == owner): return f
        return None

def eval_const(e, crate, module):
    """evaluate a constant expression to an int (for `const` items)"""
    t = e[0]
    if t == 'int': return e[1]
    if t == 'paren': return eval_const(e[1], crate, module)
    if t == 'cast': return eval_const(e[1], crate, module)
    if t == 'path':
        n = e[1][-1]
        if e[1] == ['usize', 'MAX']: return 2**64 - 1
        if e[1] == ['u16', 'MAX']: return 2**16 - 1
        owner = module if len(e[1]) == 1 else e[1][-2]
        c = crate.consts.get((owner, n)) or next((v for (m, k), v in crate.consts.items() if k == n and (len(e[1]) == 1 and m == module)), None)
        if c is None:
            c = next((v for (m, k), v in crate.consts.items() if k == n), None)
        if c is None: raise Unsupported('constant %s' % n)
        return eval_const(c[3], crate, module)
    if t == 'binary':
        a = eval_const(e[2], crate, module); b = eval_const(e[3], crate, module); op = e[1]
        import operator
        ops = {'+': operator.add, '-': operator.sub, '*': operator.mul, '/': lambda x, y: x // y if y else None, '%': lambda x, y: x % y if y else None,
               '<<': lambda x, y: x << y if y < 64 else None, '>>': lambda x, y: x >> y if y < 64 else None,
               '|': operator.or_, '&': operator.and_, '^': operator.xor}
        r = ops[op](a, b) if op in ops else None
        if r is None: raise Unsupported('constant operator %s' % op)
        if r < 0 or r >= 2**64: raise Unsupported('constant out of range')
        return r
    if t == 'unary' and e[1] == '!':
        return 2**64 - 1 - eval_const(e[2], crate, module)
    if t == 'call' and e[1][0] == 'path' and e[1][1][-1] == 'size_of' and e[1][2] and e[1][2][0] == ('path', ['usize'], []):
        return 8
    raise Unsupported('constant expression %s' % t)

# ------------------------------------------------------------------------------------------------
# per-function translation context

class Frame:
    """where `return` / `break` / `continue` / falling off the end go"""
    def __init__(self, kind, state=None, has_ret=False):
        self.kind = kind          # 'fn' | 'loop_simple' | 'loop_step'
        self.state = state or []  # Rust names of the loop-carried variables

class Ctx:
    def __init__(self, tr, fi):
        self.T = tr; self.fi = fi; self.crate = tr.crate
        self.owner = fi.owner; self.module = fi.module; self.assoc = fi.assoc
        self.env = {}             # rust name -> (lean term, type)
        self.counter = {}
        self.frames = []
        self.generic_prims = set()
        self.generic_lists = {}   # generic type parameter name -> element type (for `I: IntoIterator<Item = T>`)
        self.inouts = []          # rust names returned together with the result (`&mut self`, `&mut` params)
        self.ret_t = None
        self.aliases = {}         # rust name -> place it dereferences to (for `let x = v.last_mut().unwrap()`)
        self.writeback = {}       # rust name bound by `if let Some(x) = &mut place`: assignments to x are written back as `place = Some(x)`
        self.fnvars = {}          # rust name -> (condition term, fn if true, fn if false): `let w = if c { Self::f } else { Self::g };`
        self.uses_c = False; self.eff = False; self.pure_mode = False
    def fresh(self, hint):
        hint = lean_ident(hint)
        n = self.counter.get(hint, 0); self.counter[hint] = n + 1
        return hint if n == 0 else '%s%d' % (hint, n)
    def bind_var(self, rust, term, ty):
        self.env[rust] = (term, ty)
    def lookup(self, rust):
        if rust not in self.env: raise Unsupported('unknown variable %s' % rust)
        return self.env[rust]
    def c(self):
        self.uses_c = True; return 'c'

ARITH = {'+': 'cadd', '-': 'csub', '*': 'cmul'}
BITOPS = {'&': '&&&', '|': '|||', '^': '^^^'}
CMP = {'<': '<', '<=': '≤', '>': '>', '>=': '≥', '==': '=', '!=': '≠'}

def strip_paren(e):
    while e[0] == 'paren': e = e[1]
    return e

class Translator:
    def __init__(self, crate):
        self.crate = crate

    # ---- typing (light forward inference) -------------------------------------------------------
    def typeof(self, e, ctx):
        e = strip_paren(e); t = e[0]
        if t == 'int': return 'usize'
        if t == 'bool': return 'bool'
        if t == 'leanapp': return e[1][1]
        if t == 'path':
            segs = e[1]
            if len(segs) == 1:
                n = segs[0]
                if n in ctx.env: return ctx.env[n][1]
                if n == 'None': return ('opt', None)
                if n in TABLES: return ('vec', 'usize')
                if self.find_const(n, ctx) is not None: return 'usize'
                return None
            if segs[-1] == 'MAX': return 'usize'
            if self.find_const(segs[-1], ctx, segs[-2]) is not None: return 'usize'
            return None
        if t == 'field':
            rt = self.typeof(e[1], ctx)
            if rt and rt[0] == 'struct':
                fs = self.crate.structs.get(rt[1])
                if fs and e[2] in fs: return self.crate.ftype(rt[1], e[2])
            if rt and rt[0] == 'tuple' and e[2].isdigit(): return rt[1][int(e[2])]
            if rt == 'range' and e[2] in ('start', 'end'): return 'usize'
            return None
        if t == 'index':
            rt = self.typeof(e[1], ctx)
            if strip_paren(e[2])[0] == 'range': return rt
            if rt and rt[0] in ('vec', 'list'): return rt[1]
            return None
        if t == 'unary':
            if e[1] in ('&', '&mut', '*'): return self.typeof(e[2], ctx)
            return self.typeof(e[2], ctx)
        if t == 'binary':
            if e[1] in CMP or e[1] in ('&&', '||'): return 'bool'
            lt = self.typeof(e[2], ctx)
            return lt or self.typeof(e[3], ctx) or 'usize'
        if t == 'cast':
            return conv_type(e[2], ctx)
        if t == 'try':
            it = self.typeof(e[1], ctx)
            if it and it[0] in ('opt', 'res'): return it[1]
            return None
        if t == 'tuple': return ('tuple', [self.typeof(x, ctx) for x in e[1]])
        if t == 'call':
            f = strip_paren(e[1])
            if f[0] == 'path':
                n = f[1][-1]
                if n == 'Some': return ('opt', self.typeof(e[2][0], ctx))
                if n == 'Ok': return ('res', self.typeof(e[2][0], ctx))
                if n == 'Err': return ('res', None)
                if f[1][-2:] == ['usize', 'from']: return 'usize'
                if len(f[1]) == 2 and f[1][0] in ('u8', 'u16', 'u32') and n == 'try_from': return ('res', 'usize')
                if len(f[1]) >= 2 and f[1][-2] in self.crate.traits and e[2]: return self.typeof(('mcall', e[2][0], n, e[2][1:], None), ctx)
                if len(f[1]) == 1 and n in ctx.fnvars: return ctx.fnvars[n][1].ret_t
                if n == 'default' and len(f[1]) == 2: return ('struct', ctx.owner if f[1][0] == 'Self' else self.crate.qual(ctx.module, f[1][0]))
                if len(f[1]) == 2 and f[1][0] == 'Vec': return ('vec', None)
                fi = self.resolve_path_fn(f[1], ctx)
                if fi is not None: return self.ret_type_of(fi)
            return None
        if t == 'mcall':
            rt = self.typeof(e[1], ctx); m = e[2]
            b = self.builtin_method_type(rt, m, e, ctx)
            if b is not None: return b
            if rt and rt[0] == 'struct':
                fi = self.crate.lookup(rt[1], m)
                if fi is not None: return self.ret_type_of(fi)
            return None
        if t == 'if':
            return self.typeof_block(e[2], ctx)
        if t == 'block': return self.typeof_block(e, ctx)
        if t == 'macro':
            if e[1] == 'vec': return ('vec', None)
            return 'unit'
        if t == 'cfg': return self.typeof(e[2], ctx)
        if t == 'struct': return ('struct', ctx.owner if e[1][-1] == 'Self' else self.crate.qual(ctx.module, e[1][-1]))
        if t == 'range': return 'range'
        return None

    def typeof_block(self, b, ctx):
        if b[0] != 'block': return self.typeof(b, ctx)
        if b[2] is None: return 'unit'
        # types of `let`-bound names of the block are not tracked here; good enough for tails over outer names
        saved = dict(ctx.env)
        try:
            for s in b[1]:
                if s[0] == 'let' and s[1][0] == 'pid' and s[3] is not None:
                    ctx.env[s[1][1]] = ('?', conv_type(s[2], ctx) if s[2] is not None else self.typeof(s[3], ctx))
            return self.typeof(b[2], ctx)
        finally:
            ctx.env = saved

    def builtin_method_type(self, rt, m, e, ctx):
        if m == 'to_usize': return ('opt', 'usize')
        if m in ('ok_or_else', 'ok_or') and rt and rt[0] == 'opt': return ('res', rt[1])
        if m == 'and_then' and rt and rt[0] == 'opt' and e[3] and strip_paren(e[3][-1])[0] == 'closure': return None
        if m in ('wrapping_shl', 'wrapping_shr', 'wrapping_mul', 'wrapping_add', 'wrapping_sub', 'saturating_add', 'saturating_sub', 'count_ones', 'trailing_zeros',
                 'leading_zeros', 'min', 'max', 'pow'): return 'usize'
        if rt == 'range':
            if m == 'len': return 'usize'
            if m == 'is_empty': return 'bool'
        if rt and rt[0] in ('vec', 'list'):
            if m == 'len': return 'usize'
            if m == 'is_empty': return 'bool'
            if m in ('last', 'first', 'get'): return ('opt', rt[1])
            if m in ('iter', 'into_iter', 'to_vec', 'clone'): return rt
            if m == 'sum': return 'usize'
        if rt and rt[0] == 'opt':
            if m in ('unwrap', 'expect', 'unwrap_or'): return rt[1]
            if m in ('is_some', 'is_none'): return 'bool'
            if m in ('as_ref', 'clone', 'copied', 'cloned'): return rt
            if m == 'map_or': return self.typeof(e[3][0], ctx)
        if rt and rt[0] == 'res':
            if m in ('unwrap', 'expect'): return rt[1]
            if m in ('is_ok', 'is_err'): return 'bool'
        if rt == 'usize' and m == 'clone': return 'usize'
        return None

    def find_const(self, name, ctx, owner=None):
        cr = self.crate
        if owner is None or owner in ('Self', 'self', 'crate'):
            c = cr.consts.get((ctx.module, name))
            if c is not None: return (ctx.module, c)
            # a constant imported with `use`: unambiguous when every definition of that name has the same value
            cands = [(m, v) for (m, k), v in sorted(cr.consts.items()) if k == name]
            vals = set()
            for m, v in cands:
                try: vals.add(eval_const(v[3], cr, m))
                except Unsupported: vals.add(None)
            if cands and len(vals) == 1 and None not in vals: return cands[0]
            return None
        for (m, k), v in cr.consts.items():
            if k == name and (m == owner or m.startswith(owner)): return (m, v)
        return None

    def resolve_path_fn(self, segs, ctx):
        n = segs[-1]
        if len(segs) == 1:
            return self.crate.lookup(ctx.module, n) if not ctx.owner else (self.crate.fns.get((ctx.module, n)) or next((f for f in self.crate.by_name.get(n, []) if f.owner is None and f.module == ctx.module), None))
        q = segs[-2]
        if q == 'Self': q = ctx.owner
        else:
            q = self.crate.qual(ctx.module, q)
            if q in INSTANTIATE and ctx.owner:
                # same instantiation as the caller (`Iter::new(self)` inside `WaveletMatrix<B>`)
                for rep in INSTANTIATE[q][1]:
                    if ctx.owner.endswith('_' + rep): q = '%s_%s' % (q, rep)
        return self.crate.lookup(q, n)

    def ret_type_of(self, fi):
        if fi.ret_t is not None: return fi.ret_t
        c = Ctx(self, fi); self.setup_generics(c)
        try:
            return conv_type(fi.ast[4], c)
        except Unsupported:
            return None

    def setup_generics(self, ctx):
        fi = ctx.fi
        def scan(name, bounds):
            for b in bounds or []:
                if isinstance(b, tuple) and b[0] == 'path' and b[1][-1] == 'ToPrimitive':
                    ctx.generic_prims.add(name)      # instantiated at `usize` (the element type the model and the harness use)
                if isinstance(b, tuple) and b[0] == 'path' and b[1][-1] in ('IntoIterator', 'Iterator'):
                    for a in b[2]:
                        if a[0] == 'assoc' and a[1] == 'Item':
                            ctx.generic_lists[name] = conv_type(a[2], ctx)
        for name, bounds in fi.ast[2]:
            if isinstance(bounds, list): scan(name, bounds)
        for ty, bounds in fi.meta.get('where', []):
            if ty[0] == 'path' and len(ty[1]) == 1: scan(ty[1][0], bounds)

    # ---- helpers ---------------------------------------------------------------------------------
    LEAN_NS = 'Sucds.GenFn'

    def sinfo(self, q):
        """(Lean structure name, {rust field: lean field}) of a struct"""
        if q in STRUCTS: return STRUCTS[q]
        if self.crate.auto_struct(q): return (q, self.crate.auto_fields(q))
        raise Unsupported('struct %s has no Lean structure' % q)

    def has_struct(self, q):
        return q in STRUCTS or self.crate.auto_struct(q)

    def lean_fn_name(self, fi):
        return '%s.%s' % (fi.k[0], fi.k[1])

    def const_term(self, name, ctx, owner=None):
        if name in TABLES and (owner is None or owner in ('broadword', 'Self', 'self')): return TABLES[name]
        r = self.find_const(name, ctx, owner)
        if r is None: return None
        m, c = r
        self.used_consts[(m, name)] = c
        return '%s.%s' % (m, name)

    def nonzero_const(self, e, ctx):
        e = strip_paren(e)
        if e[0] == 'int': return e[1] != 0
        if e[0] == 'path':
            r = self.find_const(e[1][-1], ctx, e[1][-2] if len(e[1]) > 1 else None)
            if r is not None:
                try: return eval_const(r[1][3], self.crate, r[0]) != 0
                except Unsupported: return False
        return False

    def small_literal(self, e):
        e = strip_paren(e)
        return e[0] == 'int' and e[1] < 64

    def tuple_proj(self, base, i, n):
        b = paren(base)
        if n == 1: return b
        if i < n - 1: return b + '.2' * i + '.1'
        return b + '.2' * (n - 1)

    def cast(self, term, from_t, to_ast, ctx):
        to = to_ast[1][-1] if to_ast[0] == 'path' else None
        if to == 'isize':
            if from_t == 'isize': return (term, 'isize')
            return ('(RS.isizeOfUsize %s)' % paren(term), 'isize')
        if to in ('usize', 'u64', 'u128'):
            if from_t == 'bool': return ('(RS.b2u %s)' % paren(term), 'usize')
            if from_t == 'isize': return ('(RS.usizeOfIsize %s)' % paren(term), 'usize')
            return (term, 'usize')
        if to == 'u32': return ('(%s %% 4294967296)' % paren(term), 'usize')
        if to == 'u16': return ('(%s %% 65536)' % paren(term), 'usize')
        if to == 'u8': return ('(%s %% 256)' % paren(term), 'usize')
        raise Unsupported('cast to %s' % (to,))

    def combine_binary(self, op, a, at, b, bt, ctx, rhs_ast=None):
        """-> ('pure'|'eff', term, type)"""
        pa, pb = paren(a), paren(b)
        if at == 'isize' or bt == 'isize':
            if op in ('+', '-'): return ('eff', 'RS.%s %s %s %s' % ('iadd' if op == '+' else 'isub', ctx.c(), pa, pb), 'isize')
            if op in CMP and op not in ('==', '!='): return ('pure', '(decide ((%s : Int) %s %s))' % (pa, CMP[op], pb), 'bool')
            if op in ('==', '!='): return ('pure', '((%s : Int) %s %s)' % (pa, op, pb), 'bool')
            raise Unsupported('isize operator %s' % op)
        if op in ARITH:
            return ('eff', '%s %s %s %s' % (ARITH[op], ctx.c(), pa, pb), 'usize')
        if op in BITOPS:
            if at == 'bool' or bt == 'bool':
                return ('pure', '(%s %s %s)' % (pa, {'&': '&&', '|': '||', '^': '!='}[op], pb), 'bool')
            return ('pure', '(%s %s %s)' % (pa, BITOPS[op], pb), 'usize')
        if op in CMP:
            if op == '==': return ('pure', '(%s == %s)' % (pa, pb), 'bool')
            if op == '!=': return ('pure', '(%s != %s)' % (pa, pb), 'bool')
            return ('pure', '(decide (%s %s %s))' % (pa, CMP[op], pb), 'bool')
        if op in ('&&', '||'):
            return ('pure', '(%s %s %s)' % (pa, op, pb), 'bool')
        if op == '<<':
            if rhs_ast is not None and self.small_literal(rhs_ast): return ('pure', '(RS.shlConst %s %s)' % (pa, pb), 'usize')
            return ('eff', 'cshl %s %s %s' % (ctx.c(), pa, pb), 'usize')
        if op == '>>':
            if rhs_ast is not None and self.small_literal(rhs_ast): return ('pure', '(%s >>> %s)' % (pa, pb), 'usize')
            return ('eff', 'cshr %s %s %s' % (ctx.c(), pa, pb), 'usize')
        if op in ('/', '%'):
            if rhs_ast is not None and self.nonzero_const(rhs_ast, ctx): return ('pure', '(%s %s %s)' % (pa, op, pb), 'usize')
            return ('eff', 'RS.%s %s %s' % ('cdiv' if op == '/' else 'crem', pa, pb), 'usize')
        raise Unsupported('operator %s' % op)

    def unary_term(self, op, a, at):
        if op == '!':
            if at == 'bool': return ('(!%s)' % paren(a), 'bool')
            return ('(wnot %s)' % paren(a), 'usize')
        if op in ('&', '*'): return (a, at)
        if op == '&mut': raise Unsupported('`&mut` expression outside a call argument / `if let` scrutinee')
        if op == '-' and at == 'isize': return ('eff', 'RS.ineg c %s' % paren(a), 'isize')
        raise Unsupported('unary %s' % op)

    PURE_USIZE_METHODS = {'wrapping_mul': 'RS.wrappingMul', 'wrapping_add': 'RS.wrappingAdd', 'wrapping_sub': 'RS.wrappingSub',
                          'wrapping_shl': 'RS.wrappingShl', 'wrapping_shr': 'RS.wrappingShr', 'saturating_add': 'RS.saturatingAdd', 'saturating_sub': 'RS.saturatingSub', 'min': 'Nat.min', 'max': 'Nat.max'}

    def builtin_method(self, rt, m, recv, args, ctx):
        """pure builtin methods -> (term, type) | None;  effectful -> ('eff', monadic term, type)"""
        r = paren(recv)
        if m in self.PURE_USIZE_METHODS and len(args) == 1 and rt in ('usize', None):
            return ('(%s %s %s)' % (self.PURE_USIZE_METHODS[m], r, paren(args[0][0])), 'usize')
        if rt == 'usize' and m == 'to_usize' and not args: return ('(some %s)' % r, ('opt', 'usize'))
        if rt == 'usize' or rt is None:
            if m == 'count_ones' and not args: return ('(RS.countOnes %s)' % r, 'usize')
            if m == 'trailing_zeros' and not args: return ('(RS.trailingZeros %s)' % r, 'usize')
            if m == 'leading_zeros' and not args: return ('(RS.leadingZeros %s)' % r, 'usize')
        if rt == 'range':
            if m == 'len' and not args: return ('(%s.2 - %s.1)' % (r, r), 'usize')
            if m == 'is_empty' and not args: return ('(decide (%s.2 ≤ %s.1))' % (r, r), 'bool')
            if m == 'clone' and not args: return (recv, rt)
        if rt and rt[0] == 'vec':
            if m == 'len' and not args: return ('%s.size' % r, 'usize')
            if m == 'is_empty' and not args: return ('(%s.size == 0)' % r, 'bool')
            if m in ('iter', 'into_iter', 'clone', 'to_vec', 'as_slice') and not args: return (recv, rt)
            if m == 'last' and not args: return ('%s.back?' % r, ('opt', rt[1]))
            if m == 'first' and not args: return ('%s[0]?' % r, ('opt', rt[1]))
            if m == 'get' and len(args) == 1: return ('%s[%s]?' % (r, args[0][0]), ('opt', rt[1]))
        if rt and rt[0] == 'list':
            if m in ('into_iter', 'iter') and not args: return (recv, rt)
        if rt and rt[0] == 'opt':
            if m in ('as_ref', 'clone', 'copied', 'cloned', 'as_deref') and not args: return (recv, rt)
            if m == 'is_some' and not args: return ('%s.isSome' % r, 'bool')
            if m == 'is_none' and not args: return ('%s.isNone' % r, 'bool')
            if m == 'unwrap' and not args: return ('eff', 'RS.unwrap %s' % r, rt[1])
            if m == 'expect': return ('eff', 'RS.expect %s' % r, rt[1])
            if m == 'unwrap_or' and len(args) == 1: return ('(%s.getD %s)' % (r, paren(args[0][0])), rt[1])
        if rt and rt[0] == 'res':
            if m in ('unwrap', 'expect'): return ('eff', 'RS.unwrapRes %s' % r, rt[1])
        if rt in ('usize', 'bool') and m == 'clone' and not args: return (recv, rt)
        return None

    # ---- pure expressions ---------------------------------------------------------------------------
    def pure(self, e, ctx):
        e = strip_paren(e); t = e[0]
        if t == 'int': return (str(e[1]), 'usize')
        if t == 'bool': return ('true' if e[1] else 'false', 'bool')
        if t == 'str': return ('""', 'str')
        if t == 'leanapp':
            a, at = self.pure(e[2], ctx)
            return ('(%s %s)' % (e[1][0], paren(a)), e[1][1])
        if t == 'path':
            segs = e[1]
            if len(segs) == 1:
                n = segs[0]
                if n in ctx.aliases: raise Impure()
                if n in ctx.env: return ctx.env[n]
                if n == 'None': return ('none', ('opt', None))
                c = self.const_term(n, ctx)
                if c is not None: return (c, ('vec', 'usize') if n in TABLES else 'usize')
                raise Unsupported('name %s' % n)
            if segs[-2:] == ['usize', 'MAX']: return ('RS.MAX', 'usize')
            if segs[-2:] == ['u16', 'MAX']: return ('65535', 'usize')
            if segs[-2:] == ['u8', 'MAX']: return ('255', 'usize')
            c = self.const_term(segs[-1], ctx, segs[-2])
            if c is not None: return (c, ('vec', 'usize') if segs[-1] in TABLES else 'usize')
            raise Unsupported('path %s' % '::'.join(segs))
        if t == 'range' and e[1] is not None and e[2] is not None and not e[3]:
            a, _ = self.pure(e[1], ctx); b, _ = self.pure(e[2], ctx)
            return ('(%s, %s)' % (a, b), 'range')
        if t == 'field':
            base, bt = self.pure(e[1], ctx)
            if bt == 'range' and e[2] in ('start', 'end'): return ('%s.%s' % (paren(base), '1' if e[2] == 'start' else '2'), 'usize')
            if bt and bt[0] == 'struct':
                fm = self.sinfo(bt[1])[1]
                if e[2] not in fm or e[2] not in self.crate.structs.get(bt[1], {}): raise Unsupported('field %s.%s' % (bt[1], e[2]))
                return ('%s.%s' % (paren(base), fm[e[2]]), self.crate.ftype(bt[1], e[2]))
            if bt and bt[0] == 'tuple' and e[2].isdigit():
                return (self.tuple_proj(base, int(e[2]), len(bt[1])), bt[1][int(e[2])])
            raise Unsupported('field access .%s on %r' % (e[2], bt))
        if t == 'unary':
            if e[1] == '*' and strip_paren(e[2])[0] == 'path' and strip_paren(e[2])[1][0] in ctx.aliases: raise Impure()
            a, at = self.pure(e[2], ctx)
            u = self.unary_term(e[1], a, at)
            if u[0] == 'eff': raise Impure()
            return u
        if t == 'binary':
            a, at = self.pure(e[2], ctx); b, bt = self.pure(e[3], ctx)
            kind, term, ty = self.combine_binary(e[1], a, at, b, bt, ctx, e[3])
            if kind == 'eff': raise Impure()
            return (term, ty)
        if t == 'cast':
            a, at = self.pure(e[1], ctx)
            return self.cast(a, at, e[2], ctx)
        if t == 'tuple':
            parts = [self.pure(x, ctx) for x in e[1]]
            if not parts: return ('()', 'unit')
            return ('(' + ', '.join(p[0] for p in parts) + ')', ('tuple', [p[1] for p in parts]))
        if t == 'call':
            f = strip_paren(e[1])
            if f[0] != 'path': raise Unsupported('call of a non-path')
            n = f[1][-1]
            if n in ('Some', 'Ok') and len(e[2]) == 1:
                a, at = self.pure(e[2][0], ctx)
                return (('some %s' if n == 'Some' else 'RS.Res.ok %s') % paren(a), ('opt' if n == 'Some' else 'res', at))
            if n == 'Err': return ('RS.Res.err', ('res', None))
            if len(f[1]) == 1 and n in ctx.fnvars: raise Impure()
            if n == 'default' and len(f[1]) == 2 and not e[2]:
                tn = ctx.owner if f[1][0] == 'Self' else self.crate.qual(ctx.module, f[1][0])
                if self.crate.lookup(tn, 'default') is None:
                    return (self.default_term(('struct', tn), ctx), ('struct', tn))
            if f[1][-2:] == ['usize', 'from'] and len(e[2]) == 1: return self.pure(('cast', e[2][0], ('path', ['usize'], [])), ctx)
            if len(f[1]) == 2 and f[1][0] in ('u8', 'u16', 'u32') and n == 'try_from' and len(e[2]) == 1:
                a, at = self.pure(e[2][0], ctx); lim = {'u8': 256, 'u16': 65536, 'u32': 4294967296}[f[1][0]]
                return ('(if %s < %d then RS.Res.ok %s else RS.Res.err)' % (paren(a), lim, paren(a)), ('res', 'usize'))
            if len(f[1]) >= 2 and f[1][-2] in self.crate.traits and e[2]:
                return self.pure(('mcall', e[2][0], n, e[2][1:], None), ctx)
            if len(f[1]) == 2 and f[1][0] == 'Vec' and n == 'new' and not e[2]: return ('#[]', ('vec', None))
            if len(f[1]) == 2 and f[1][0] == 'Vec' and n == 'with_capacity' and len(e[2]) == 1:
                self.pure(e[2][0], ctx); return ('#[]', ('vec', None))
            fi = self.resolve_path_fn(f[1], ctx)
            if fi is None: raise Unsupported('call of %s' % '::'.join(f[1]))
            self.ensure(fi)
            if fi.state == 'busy' or not fi.pure or fi.inouts: raise Impure()
            args = [self.pure(a, ctx) for a in self.adapt_args(fi, e[2], ctx)]
            return (self.call_term(fi, [a[0] for a in args], ctx), fi.ret_t)
        if t == 'mcall':
            if e[2] in self.MUT_VEC or e[2] in ('last_mut', 'shrink_to_fit', 'for_each', 'filter', 'then', 'contains', 'and_then', 'fold', 'collect', 'ok_or_else', 'ok_or', 'sum', 'max'): raise Impure()
            recv, rt = self.pure(e[1], ctx)
            args = [self.pure(a, ctx) for a in e[3]] if not any(strip_paren(a)[0] == 'closure' for a in e[3]) else None
            if args is None: raise Impure()
            if e[2] in self.MUT_VEC or e[2] in ('last_mut', 'shrink_to_fit', 'for_each', 'filter', 'then', 'contains', 'and_then', 'fold', 'collect', 'ok_or_else', 'ok_or', 'sum', 'max'): raise Impure()
            b = self.builtin_method(rt, e[2], recv, args, ctx)
            if b is not None:
                if b[0] == 'eff': raise Impure()
                return b
            if rt and rt[0] == 'struct':
                fi = self.crate.lookup(rt[1], e[2])
                if fi is None: raise Unsupported('method %s::%s' % (rt[1], e[2]))
                self.ensure(fi)
                if fi.state == 'busy' or not fi.pure or fi.inouts: raise Impure()
                return (self.call_term(fi, [recv] + [a[0] for a in args], ctx), fi.ret_t)
            raise Unsupported('method .%s on %r' % (e[2], rt))
        if t == 'if':
            cnd = self.cond(e[1], ctx)
            if e[3] is None: raise Impure()
            a, at = self.pure(e[2], ctx); b, bt = self.pure(e[3], ctx)
            return ('(if %s then %s else %s)' % (cnd, a, b), at if at and None not in (at if isinstance(at, tuple) else ()) else bt)
        if t == 'block':
            nb = self.norm_cfg(e)
            if nb is not e: return self.pure(nb, ctx)
            if not e[1] and e[2] is not None: return self.pure(e[2], ctx)
            raise Impure()
        if t == 'unsafe': return self.pure(e[1], ctx)
        if t == 'cfgif':
            a, at = self.pure(e[2], ctx); b, bt = self.pure(e[3], ctx)
            return ('(if %s.intrinsics then %s else %s)' % (ctx.c(), a, b), at)
        if t == 'struct':
            name = ctx.owner if e[1][-1] == 'Self' else self.crate.qual(ctx.module, e[1][-1])
            if not self.has_struct(name) or e[3] is not None: raise Unsupported('struct literal %s' % name)
            fm = self.sinfo(name)[1]; parts = []
            for fn_, fe in e[2]:
                a, at = self.pure(fe, ctx); parts.append('%s := %s' % (fm[fn_], a))
            return ('({ %s } : %s)' % (', '.join(parts), self.sinfo(name)[0]), ('struct', name))
        if t in ('index', 'try', 'iflet', 'closure', 'range', 'match', 'macro', 'return', 'break', 'continue', 'assign', 'while', 'whilelet', 'loop', 'for', 'cfg'):
            raise Impure()
        raise Unsupported('expression %s' % t)

    def cond(self, e, ctx):
        """a pure boolean expression as a decidable proposition (for `if`)"""
        e = strip_paren(e)
        if e[0] == 'binary' and e[1] in CMP:
            a, at = self.pure(e[2], ctx); b, bt = self.pure(e[3], ctx)
            if at == 'isize' or bt == 'isize': return '(%s : Int) %s %s' % (paren(a), CMP[e[1]], paren(b))
            return '%s %s %s' % (paren(a), CMP[e[1]], paren(b))
        if e[0] == 'binary' and e[1] in ('&&', '||'):
            return '(%s) %s (%s)' % (self.cond(e[2], ctx), '∧' if e[1] == '&&' else '∨', self.cond(e[3], ctx))
        if e[0] == 'unary' and e[1] == '!':
            return '¬ (%s)' % self.cond(e[2], ctx)
        if e[0] == 'cfgcond': return '%s.intrinsics = true' % ctx.c()
        a, at = self.pure(e, ctx)
        return '%s = true' % paren(a)

    def norm_cfg(self, b):
        """`{ #[cfg(feature = F)] {X} #[cfg(not(feature = F))] {Y} }` -> ('cfgif', F, X, Y)"""
        if b[0] != 'block': return b
        parts = [s[1] for s in b[1] if s[0] == 'expr'] + ([b[2]] if b[2] is not None else [])
        if any(p[0] == 'cfg' and p[1][0] != 'feature' for p in parts): raise Unsupported('conditional compilation the translator does not model: %s' % [p[1] for p in parts if p[0] == 'cfg'][0][-1])
        if len(parts) == 2 and len(b[1]) + (1 if b[2] is not None else 0) == 2 and all(p[0] == 'cfg' for p in parts):
            (k1, f1, p1), (k2, f2, p2) = parts[0][1], parts[1][1]
            if k1 == 'feature' and f1 == f2 and p1 != p2:
                pos = parts[0][2] if p1 else parts[1][2]; neg = parts[1][2] if p1 else parts[0][2]
                if f1 != 'intrinsics': raise Unsupported('cfg feature %s' % f1)
                return ('cfgif', f1, pos, neg)
        return b

    def default_term(self, ty, ctx):
        """`Default::default()` of a type (derived impls only)"""
        if ty == 'usize': return '0'
        if ty == 'bool': return 'false'
        if ty and ty[0] == 'vec': return '#[]'
        if ty and ty[0] == 'opt': return 'none'
        if ty and ty[0] == 'struct' and self.has_struct(ty[1]) and 'Default' in self.crate.derives.get(ty[1], []):
            fm = self.sinfo(ty[1])[1]
            parts = ['%s := %s' % (fm[f], self.default_term(self.crate.ftype(ty[1], f), ctx)) for f in self.crate.struct_order[ty[1]]]
            return '({ %s } : %s)' % (', '.join(parts), self.sinfo(ty[1])[0])
        raise Unsupported('Default for %r' % (ty,))

    def call_term(self, fi, args, ctx):
        name = self.lean_fn_name(fi)
        if fi.state == 'busy':
            # a recursive call: the callee is the function being translated; it takes the remaining fuel
            if fi is not ctx.fi: raise Unsupported('mutual recursion through %s' % fi.name)
            ctx.eff = True; ctx.uses_c = True
            return '(' + ' '.join([name, 'c', 'fuel'] + [paren(a) for a in args]) + ')'
        if fi.recursive:
            ctx.uses_c = True
            return '(' + ' '.join([name, 'c', 'RS.FUEL'] + [paren(a) for a in args]) + ')'
        parts = [name] + ([ctx.c()] if fi.uses_c else []) + [paren(a) for a in args]
        return '(' + ' '.join(parts) + ')' if len(parts) > 1 else name

    # ---- effectful expressions (continuation-passing) ----------------------------------------------
    def bind(self, ctx, m, ty, k, hint='t'):
        v = '_' if ty == 'unit' else ctx.fresh(hint)
        ctx.eff = True
        body = k('()' if ty == 'unit' else v, ty)
        if body.strip() == '.ok %s' % v and ty != 'unit': return m      # monad law: m >>= pure = m
        return '%s.bind fun %s =>\n%s' % (paren(m), v, body)

    def tr(self, e, ctx, k, hint='t'):
        try:
            term, ty = self.pure(e, ctx)
        except Impure:
            return self.tr_impure(strip_paren(e), ctx, k, hint)
        return k(term, ty)

    def adapt_args(self, fi, args, ctx, offset=0):
        """`x.iter()` passed to a parameter of iterator type becomes the list of items of `x`"""
        out = []
        for i, a in enumerate(args):
            pt = fi.params_t[i + offset] if fi.params_t and i + offset < len(fi.params_t) else None
            a0 = strip_paren(a)
            if pt and pt[0] == 'list' and a0[0] == 'mcall' and not a0[3]:
                rt = self.typeof(a0[1], ctx)
                if rt and rt[0] == 'struct' and (rt[1], a0[2]) in ITER_AS_LIST:
                    out.append(('leanapp', ITER_AS_LIST[(rt[1], a0[2])], a0[1])); continue
            out.append(a)
        return out

    def tr_list(self, es, ctx, k, acc=None):
        acc = acc or []
        if not es: return k(acc)
        return self.tr(es[0], ctx, lambda v, t: self.tr_list(es[1:], ctx, k, acc + [(v, t)]))

    def tr_impure(self, e, ctx, k, hint):
        t = e[0]
        if t == 'binary':
            op = e[1]
            if op in ('&&', '||'):
                # the right operand is evaluated only when needed
                def after_l(a, at):
                    rhs = self.tr(e[3], ctx, lambda b, bt: '.ok %s' % paren(b))
                    m = '(if %s then\n%s\nelse .ok false : R _)' % (paren(a), indent(rhs)) if op == '&&' else '(if %s then .ok true else\n%s : R _)' % (paren(a), indent(rhs))
                    return self.bind(ctx, m, 'bool', k, hint)
                return self.tr(e[2], ctx, after_l)
            def after(vs):
                (a, at), (b, bt) = vs
                kind, term, ty = self.combine_binary(op, a, at, b, bt, ctx, e[3])
                if kind == 'eff': return self.bind(ctx, term, ty, k, hint)
                return k(term, ty)
            return self.tr_list([e[2], e[3]], ctx, after)
        if t == 'unary':
            inner = strip_paren(e[2])
            if e[1] == '*' and inner[0] == 'path' and inner[1][0] in ctx.aliases:
                return self.to_place(e, ctx, lambda p: self.read_place(p, ctx, k, hint))
            def after_u(a, at):
                u = self.unary_term(e[1], a, at)
                if u[0] == 'eff':
                    ctx.uses_c = True
                    return self.bind(ctx, u[1], u[2], k, hint)
                return k(*u)
            return self.tr(e[2], ctx, after_u)
        if t == 'path':   # an alias read
            return self.to_place(e, ctx, lambda p: self.read_place(p, ctx, k, hint))
        if t == 'cast':
            return self.tr(e[1], ctx, lambda a, at: k(*self.cast(a, at, e[2], ctx)))
        if t == 'index' and strip_paren(e[2])[0] == 'range':
            r = strip_paren(e[2])
            if r[3]: raise Unsupported('inclusive slice')
            def after_s(v, vt):
                if not vt or vt[0] != 'vec': raise Unsupported('slicing a %r' % (vt,))
                lo_ast = r[1] if r[1] is not None else ('int', 0, None)
                def after_b(vs):
                    lo = vs[0][0]; hi = vs[1][0] if len(vs) > 1 else '%s.size' % paren(v)
                    return self.bind(ctx, 'RS.slice %s %s %s' % (paren(v), paren(lo), paren(hi)), vt, k, hint)
                return self.tr_list([lo_ast] + ([r[2]] if r[2] is not None else []), ctx, after_b)
            return self.tr(e[1], ctx, after_s)
        if t == 'index':
            def after(vs):
                (v, vt), (i, it) = vs
                if not vt or vt[0] != 'vec': raise Unsupported('indexing a %r' % (vt,))
                return self.bind(ctx, 'RS.index %s %s' % (paren(v), paren(i)), vt[1], k, hint)
            return self.tr_list([e[1], e[2]], ctx, after)
        if t == 'range' and e[1] is not None and e[2] is not None and not e[3]:
            return self.tr_list([e[1], e[2]], ctx, lambda vs: k('(%s, %s)' % (vs[0][0], vs[1][0]), 'range'))
        if t == 'field':
            def after(a, at):
                if at == 'range' and e[2] in ('start', 'end'): return k('%s.%s' % (paren(a), '1' if e[2] == 'start' else '2'), 'usize')
                if at and at[0] == 'tuple' and e[2].isdigit(): return k(self.tuple_proj(a, int(e[2]), len(at[1])), at[1][int(e[2])])
                if at and at[0] == 'struct' and self.has_struct(at[1]):
                    return k('%s.%s' % (paren(a), self.sinfo(at[1])[1][e[2]]), self.crate.ftype(at[1], e[2]))
                raise Unsupported('field .%s' % e[2])
            return self.tr(e[1], ctx, after)
        if t == 'tuple':
            return self.tr_list(e[1], ctx, lambda vs: k('(' + ', '.join(v for v, _ in vs) + ')', ('tuple', [t_ for _, t_ in vs])))
        if t == 'call':
            f = strip_paren(e[1])
            if f[0] != 'path': raise Unsupported('call of a non-path')
            n = f[1][-1]
            if n in ('Some', 'Ok') and len(e[2]) == 1:
                return self.tr(e[2][0], ctx, lambda a, at: k(('some %s' if n == 'Some' else 'RS.Res.ok %s') % paren(a), ('opt' if n == 'Some' else 'res', at)))
            if len(f[1]) == 1 and n in ctx.fnvars:
                cterm, f1, f2 = ctx.fnvars[n]
                if f1.inouts or f2.inouts or f1.ret_t != f2.ret_t: raise Unsupported('function-valued local %s' % n)
                def after_fv(vs):
                    a1 = self.call_term(f1, [v for v, _ in vs], ctx); a2 = self.call_term(f2, [v for v, _ in vs], ctx)
                    if f1.pure and f2.pure: return k('(if %s then %s else %s)' % (cterm, a1, a2), f1.ret_t)
                    m1 = a1 if not f1.pure else '.ok %s' % a1; m2 = a2 if not f2.pure else '.ok %s' % a2
                    return self.bind(ctx, '(if %s then %s else %s : R _)' % (cterm, m1, m2), f1.ret_t, k, hint)
                return self.tr_list(e[2], ctx, after_fv)
            if len(f[1]) == 2 and f[1][0] == 'Vec' and n == 'with_capacity' and len(e[2]) == 1:
                return self.tr(e[2][0], ctx, lambda a, at: k('#[]', ('vec', None)))
            if f[1][-2:] == ['usize', 'from'] and len(e[2]) == 1: return self.tr(('cast', e[2][0], ('path', ['usize'], [])), ctx, k, hint)
            if len(f[1]) == 2 and f[1][0] in ('u8', 'u16', 'u32') and n == 'try_from' and len(e[2]) == 1:
                lim = {'u8': 256, 'u16': 65536, 'u32': 4294967296}[f[1][0]]
                return self.tr(e[2][0], ctx, lambda a, at: k('(if %s < %d then RS.Res.ok %s else RS.Res.err)' % (paren(a), lim, paren(a)), ('res', 'usize')))
            if len(f[1]) >= 2 and f[1][-2] in self.crate.traits and e[2]:
                return self.tr(('mcall', e[2][0], n, e[2][1:], None), ctx, k, hint)
            fi = self.resolve_path_fn(f[1], ctx)
            if fi is None: raise Unsupported('call of %s' % '::'.join(f[1]))
            self.ensure(fi)
            if fi.inouts:
                # arguments passed as `&mut place` are rebound from the returned tuple
                pnames = [p[1][1] if p[0] == 'param' and p[1][0] == 'pid' else ('self' if p[0] == 'self' else '_') for p in fi.ast[3]]
                io_idx = [i for i, n_ in enumerate(pnames) if n_ in fi.inouts]
                def collect(i, places, vals):
                    if i == len(e[2]):
                        term = self.call_term(fi, vals, ctx); ctx.eff = True
                        pr = ctx.fresh('r'); nio = len(io_idx); tot = nio + 1
                        def write(j):
                            if j == nio: return k(self.tuple_proj(pr, nio, tot), fi.ret_t)
                            return self.write_place(places[io_idx[j]], self.tuple_proj(pr, j, tot), fi.params_t[io_idx[j]], ctx, lambda: write(j + 1))
                        return '%s.bind fun %s =>\n%s' % (paren(term if not fi.pure else '.ok %s' % term), pr, write(0))
                    if i in io_idx:
                        return self.to_place(e[2][i], ctx, lambda p: self.read_place(p, ctx, lambda v, vt: collect(i + 1, {**places, i: p}, vals + [v])))
                    return self.tr(e[2][i], ctx, lambda v, vt: collect(i + 1, places, vals + [v]))
                return collect(0, {}, [])
            def after(vs):
                term = self.call_term(fi, [v for v, _ in vs], ctx)
                if fi.pure: return k(term, fi.ret_t)
                return self.bind(ctx, term, fi.ret_t, k, hint)
            return self.tr_list(self.adapt_args(fi, e[2], ctx), ctx, after)
        if t == 'mcall':
            return self.tr_mcall(e, ctx, k, hint)
        if t == 'try':
            def after(a, at):
                if not at or at[0] not in ('opt', 'res'): raise Unsupported('`?` on %r' % (at,))
                v = ctx.fresh(hint)
                if at[0] == 'opt':
                    return '(match %s with\n  | none => %s\n  | some %s =>\n%s)' % (a, self.emit_return('none', ctx), v, indent(k(v, at[1]), 4))
                return '(match %s with\n  | .err => %s\n  | .ok %s =>\n%s)' % (a, self.emit_return('RS.Res.err', ctx), v, indent(k(v, at[1]), 4))
            return self.tr(e[1], ctx, after)
        if t == 'if' or t == 'cfgif':
            return self.tr_if_value(e, ctx, k, hint)
        if t == 'iflet' or t == 'match':
            return self.tr_match_value(e, ctx, k, hint)
        if t == 'block':
            nb = self.norm_cfg(e)
            if nb is not e: return self.tr(nb, ctx, k, hint)
            return self.tr_block(e, ctx, k)
        if t == 'unsafe':
            return self.tr(e[1], ctx, k, hint)
        if t == 'macro':
            return self.tr_macro(e, ctx, k)
        if t == 'return':
            if e[1] is None: return self.emit_return('()', ctx)
            return self.tr(e[1], ctx, lambda v, vt: self.emit_return(v, ctx))
        if t == 'break':
            if e[1] is not None: raise Unsupported('break with a value')
            return self.emit_break(ctx)
        if t == 'continue':
            return self.emit_continue(ctx)
        if t in ('assign', 'while', 'whilelet', 'loop', 'for'):
            return self.tr_stmt_expr(e, ctx, lambda: k('()', 'unit'))
        if t == 'struct':
            name = ctx.owner if e[1][-1] == 'Self' else self.crate.qual(ctx.module, e[1][-1])
            if not self.has_struct(name) or e[3] is not None: raise Unsupported('struct literal %s' % name)
            fm = self.sinfo(name)[1]
            return self.tr_list([fe for _, fe in e[2]], ctx, lambda vs: k('({ %s } : %s)' % (', '.join('%s := %s' % (fm[fn_], v) for (fn_, _), (v, _) in zip(e[2], vs)), self.sinfo(name)[0]), ('struct', name)))
        raise Unsupported('expression %s' % t)

    def tr_mcall(self, e, ctx, k, hint):
        recv_ast, m, args_ast = e[1], e[2], e[3]
        rt = self.typeof(recv_ast, ctx)
        clo = strip_paren(args_ast[-1]) if args_ast and strip_paren(args_ast[-1])[0] == 'closure' else None
        # `iter.for_each(|x| stmt)` is `for x in iter { stmt }`
        if m == 'for_each' and clo is not None and len(clo[1]) == 1:
            body = clo[2] if clo[2][0] == 'block' else ('block', [('expr', clo[2], True)], None)
            return self.tr_for(('for', clo[1][0][0], recv_ast, body), ctx, lambda: k('()', 'unit'))
        # `(a..=b).contains(&x)`
        r0 = strip_paren(recv_ast)
        if m == 'contains' and r0[0] == 'range' and r0[1] is not None and r0[2] is not None and len(args_ast) == 1:
            def after_c(vs):
                (lo, _), (hi, _), (x, _) = vs
                return k('(decide (%s ≤ %s) && decide (%s %s %s))' % (paren(lo), paren(x), paren(x), '≤' if r0[3] else '<', paren(hi)), 'bool')
            return self.tr_list([r0[1], r0[2], args_ast[0]], ctx, after_c)
        # `opt.and_then(|x| body)`
        if m == 'and_then' and clo is not None and len(clo[1]) == 1 and rt and rt[0] == 'opt':
            pat = clo[1][0][0]
            while pat[0] == 'pref': pat = pat[1]
            if pat[0] != 'pid': raise Unsupported('closure pattern')
            def after_at(a, at):
                v = ctx.fresh(pat[1]); saved = dict(ctx.env); ctx.bind_var(pat[1], v, at[1] if at else None)
                rty = [None]
                def kk(b, bt): rty[0] = bt; return '.ok %s' % paren(b)
                inner = self.tr(clo[2], ctx, kk)
                ctx.env = saved
                return self.bind(ctx, '(match %s with\n  | none => .ok none\n  | some %s =>\n%s : R _)' % (a, v, indent(inner, 4)), rty[0], k, hint)
            return self.tr(recv_ast, ctx, after_at)
        # `opt.ok_or_else(|| err)` / `ok_or(err)`: Option -> Result (the error value is not modelled)
        if m in ('ok_or_else', 'ok_or') and rt and rt[0] == 'opt':
            return self.tr(recv_ast, ctx, lambda a, at: k('(match %s with | some v_ => RS.Res.ok v_ | none => RS.Res.err)' % a, ('res', at[1] if at else None)))
        # `(lo..hi).fold(init, |acc, i| body)`
        if m == 'fold' and clo is not None and len(clo[1]) == 2 and r0[0] == 'range' and r0[1] is not None and r0[2] is not None and not r0[3]:
            pa, pi = clo[1][0][0], clo[1][1][0]
            if pa[0] != 'pid' or pi[0] != 'pid': raise Unsupported('closure pattern')
            def after_f(vs):
                (lo, _), (hi, _), (ini, it_) = vs
                saved = dict(ctx.env)
                av = ctx.fresh(pa[1]); iv = ctx.fresh(pi[1]); ctx.bind_var(pa[1], av, it_); ctx.bind_var(pi[1], iv, 'usize')
                inner = self.tr(clo[2], ctx, lambda b, bt: '.ok %s' % paren(b))
                ctx.env = saved
                return self.bind(ctx, 'RS.forRange %s %s %s\n  (fun %s %s =>\n%s)' % (paren(lo), paren(hi), paren(ini), iv, av, indent(inner, 4)), it_, k, hint)
            return self.tr_list([r0[1], r0[2], args_ast[0]], ctx, after_f)
        # `v.iter().map(|x| pure).collect()`
        if m == 'collect' and r0[0] == 'mcall' and r0[2] == 'map' and r0[3] and strip_paren(r0[3][0])[0] in ('closure', 'path'):
            c2 = strip_paren(r0[3][0]); src = strip_paren(r0[1])
            if c2[0] == 'path':     # `.map(Type::f)` is `.map(|x| Type::f(x))`
                c2 = ('closure', [(('pid', 'x__', False, False), None)], ('call', c2, [('path', ['x__'], None)]))
            if src[0] == 'mcall' and src[2] in ('iter', 'into_iter') and len(c2[1]) == 1:
                pat = c2[1][0][0]
                while pat[0] == 'pref': pat = pat[1]
                def after_m(v, vt):
                    if not vt or vt[0] != 'vec': raise Unsupported('map over %r' % (vt,))
                    saved = dict(ctx.env); x = '_'
                    if pat[0] == 'pid': x = ctx.fresh(pat[1]); ctx.bind_var(pat[1], x, vt[1])
                    elif pat[0] != 'pwild': raise Unsupported('closure pattern')
                    try:
                        b, bt = self.pure(c2[2], ctx)
                    except Impure:
                        rty = [None]
                        def kk(b2, bt2): rty[0] = bt2; return '.ok %s' % paren(b2)
                        inner = self.tr(c2[2], ctx, kk)
                        ctx.env = saved
                        return self.bind(ctx, 'Array.mapM (fun %s =>\n%s) %s' % (x, indent(inner, 4), paren(v)), ('vec', rty[0]), k, hint)
                    finally:
                        ctx.env = saved
                    return k('(%s.map fun %s => %s)' % (paren(v), x, b), ('vec', bt))
                return self.tr(src[1], ctx, after_m)
        # `cond.then(|| v)`
        if m == 'then' and clo is not None and not clo[1]:
            def after_b(b, bt):
                inner = self.tr(clo[2], ctx, lambda v, vt: '.ok (some %s)' % paren(v))
                return self.bind(ctx, '(if %s = true then\n%s\nelse .ok none : R _)' % (paren(b), indent(inner)), ('opt', self.typeof(clo[2], ctx)), k, hint)
            return self.tr(recv_ast, ctx, after_b)
        # `opt.filter(|&i| cond)`
        if m == 'filter' and clo is not None and len(clo[1]) == 1 and rt and rt[0] == 'opt':
            pat = clo[1][0][0]
            while pat[0] == 'pref': pat = pat[1]
            if pat[0] != 'pid': raise Unsupported('closure pattern')
            def after_o(a, at):
                v = ctx.fresh(pat[1]); saved = dict(ctx.env); ctx.bind_var(pat[1], v, at[1] if at else None)
                inner = self.tr(clo[2], ctx, lambda b, bt: '.ok (if %s = true then some %s else none)' % (paren(b), v))
                ctx.env = saved
                return self.bind(ctx, '(match %s with\n  | none => .ok none\n  | some %s =>\n%s : R _)' % (a, v, indent(inner, 4)), at, k, hint)
            return self.tr(recv_ast, ctx, after_o)
        # `x.into_iter()` / `.iter()` on lists and vectors are the collection itself
        # Option combinators with closures
        if m in ('map_or', 'map') and args_ast and strip_paren(args_ast[-1])[0] == 'closure':
            clo = strip_paren(args_ast[-1])
            if len(clo[1]) != 1 or clo[1][0][0][0] != 'pid': raise Unsupported('closure shape')
            pname = clo[1][0][0][1]
            def after(a, at):
                if not at or at[0] != 'opt': raise Unsupported('.%s on %r' % (m, at))
                v = ctx.fresh(pname); saved = dict(ctx.env)
                ctx.bind_var(pname, v, at[1])
                if m == 'map_or':
                    some_b = self.tr(clo[2], ctx, lambda b, bt: '.ok %s' % paren(b))
                    ctx.env = saved
                    none_b = self.tr(args_ast[0], ctx, lambda b, bt: '.ok %s' % paren(b))
                    rty = self.typeof(args_ast[0], ctx)
                else:
                    rty = [None]
                    def kk(b, bt): rty[0] = ('opt', bt); return '.ok (some %s)' % paren(b)
                    some_b = self.tr(clo[2], ctx, kk); ctx.env = saved; none_b = '.ok none'; rty = rty[0]
                mterm = '(match %s with\n  | none => %s\n  | some %s =>\n%s : R _)' % (a, none_b, v, indent(some_b, 4))
                return self.bind(ctx, mterm, rty, k, hint)
            return self.tr(recv_ast, ctx, after)
        if rt and rt[0] == 'struct' and m == 'max' and not args_ast and self.crate.lookup(rt[1], 'next') is not None and self.crate.lookup(rt[1], 'max') is None:
            # `Iterator::max` over a crate iterator, written out as the loop it is
            e2 = rust_expr('{ let mut it__ = RECV__; let mut m__ = None; while let Some(x__) = it__.next() { m__ = match m__ { None => Some(x__), Some(y__) => Some(if x__ >= y__ { x__ } else { y__ }) }; } m__ }', RECV__=recv_ast)
            return self.tr(e2, ctx, k, hint)
        # crate methods taking `&mut self`: the receiver is a place that is rebound
        if rt and rt[0] == 'struct':
            fi = self.crate.lookup(rt[1], m)
            if fi is None: raise Unsupported('method %s::%s' % (rt[1], m))
            self.ensure(fi)
            if fi.inouts == ['self']:
                def after_args(vs):
                    def with_place(p):
                        def with_self(s, st):
                            term = self.call_term(fi, [s] + [v for v, _ in vs], ctx)
                            pr = ctx.fresh('r')
                            inner = self.write_place(p, '%s.1' % pr, rt, ctx, lambda: k('%s.2' % pr, fi.ret_t))
                            return '(%s).bind fun %s =>\n%s' % (term, pr, inner)
                        return self.read_place(p, ctx, with_self, 'self_')
                    return self.to_place(recv_ast, ctx, with_place)
                return self.tr_list(args_ast, ctx, after_args)
            if fi.inouts: raise Unsupported('method %s with &mut parameters' % m)
            def after(vs):
                term = self.call_term(fi, [v for v, _ in vs], ctx)
                if fi.pure: return k(term, fi.ret_t)
                return self.bind(ctx, term, fi.ret_t, k, hint)
            return self.tr_list([recv_ast] + self.adapt_args(fi, args_ast, ctx, 1), ctx, after)
        # mutating Vec methods in value position are statements
        if m == 'sum' and not args_ast and r0[0] == 'mcall' and r0[2] == 'map' and len(r0[3]) == 1 and strip_paren(r0[3][0])[0] == 'closure':
            c2 = strip_paren(r0[3][0]); src = strip_paren(r0[1])
            if src[0] == 'mcall' and src[2] in ('iter', 'into_iter') and not src[3] and len(c2[1]) == 1:
                e2 = rust_expr('{ let mut acc__ = 0; for pat__ in SRC__ { acc__ += BODY__; } acc__ }', SRC__=src[1], BODY__=c2[2], pat__=('pat', c2[1][0][0]))
                return self.tr(e2, ctx, k, hint)
        if rt and rt[0] == 'vec' and m == 'sum' and not args_ast:
            return self.tr(recv_ast, ctx, lambda v, vt: self.bind(ctx, 'RS.sum %s %s' % (ctx.c(), paren(v)), 'usize', k, hint))
        if rt and rt[0] == 'vec' and m in ('push', 'clear', 'shrink_to_fit', 'pop', 'truncate', 'resize', 'extend_from_slice'):
            return self.tr_vec_mutation(e, rt, ctx, lambda: k('()', 'unit'))
        if rt and rt[0] == 'vec' and m == 'last_mut':
            raise Unsupported('last_mut outside `let x = v.last_mut().unwrap()`')
        def after(vs):
            (recv, rt2) = vs[0]
            b = self.builtin_method(rt2 or rt, m, recv, vs[1:], ctx)
            if b is None: raise Unsupported('method .%s on %r' % (m, rt2 or rt))
            if b[0] == 'eff': return self.bind(ctx, b[1], b[2], k, hint)
            return k(b[0], b[1])
        return self.tr_list([recv_ast] + args_ast, ctx, after)

    def tr_vec_mutation(self, e, rt, ctx, k0):
        recv_ast, m, args_ast = e[1], e[2], e[3]
        if m == 'shrink_to_fit': return k0()
        def after_args(vs):
            def with_place(p):
                def with_v(v, vt):
                    if m == 'push' and len(vs) == 1: new = '%s.push %s' % (paren(v), paren(vs[0][0]))
                    elif m == 'extend_from_slice' and len(vs) == 1: new = '%s ++ %s' % (paren(v), paren(vs[0][0]))
                    elif m == 'clear' and not vs: new = '#[]'
                    else: raise Unsupported('Vec::%s' % m)
                    return self.write_place(p, new, rt, ctx, k0)
                return self.read_place(p, ctx, with_v, 'v')
            return self.to_place(recv_ast, ctx, with_place)
        return self.tr_list(args_ast, ctx, after_args)

    def tr_macro(self, e, ctx, k):
        name, args = e[1], e[2]
        if name in ('debug_assert', 'assert') and args:
            fn_ = ('dassert %s' % ctx.c()) if name == 'debug_assert' else 'RS.assert'
            return self.tr(args[0], ctx, lambda b, bt: '(%s %s).bind fun _ =>\n%s' % (fn_, paren(b), k('()', 'unit')))
        if name in ('debug_assert_eq', 'assert_eq', 'debug_assert_ne', 'assert_ne') and args and len(args) >= 2:
            fn_ = ('dassert %s' % ctx.c()) if name.startswith('debug') else 'RS.assert'
            op = '==' if name.endswith('eq') else '!='
            return self.tr_list(args[:2], ctx, lambda vs: '(%s (%s %s %s)).bind fun _ =>\n%s' % (fn_, paren(vs[0][0]), op, paren(vs[1][0]), k('()', 'unit')))
        if name == 'vec':
            if args == [] or args is None: return k('#[]', ('vec', None))
            if isinstance(args, tuple) and args[0] == 'rep':
                return self.tr_list([args[1], args[2]], ctx, lambda vs: k('(Array.replicate %s %s)' % (paren(vs[1][0]), paren(vs[0][0])), ('vec', vs[0][1])))
            return self.tr_list(args, ctx, lambda vs: k('#[' + ', '.join(v for v, _ in vs) + ']', ('vec', vs[0][1])))
        if name == 'anyhow': return k('RS.Res.err', ('res', None))
        if name in ('unreachable', 'panic', 'unimplemented', 'todo'): return '.error .assertFail'
        raise Unsupported('macro %s!' % name)

    # ---- places -----------------------------------------------------------------------------------
    def to_place(self, e, ctx, k):
        e = strip_paren(e); t = e[0]
        if t == 'path' and len(e[1]) == 1:
            n = e[1][0]
            if n in ctx.aliases: return k(ctx.aliases[n])
            ctx.lookup(n); return k(('var', n))
        if t == 'field': return self.to_place(e[1], ctx, lambda p: k(('field', p, e[2])))
        if t == 'index':
            return self.to_place(e[1], ctx, lambda p: self.tr(e[2], ctx, lambda i, it: k(('index', p, i))))
        if t == 'unary' and e[1] in ('*', '&mut', '&'): return self.to_place(e[2], ctx, k)
        if t == 'mcall' and e[2] == 'unwrap' and strip_paren(e[1])[0] == 'mcall' and strip_paren(e[1])[2] == 'last_mut':
            def with_p(p):
                def with_v(v, vt):
                    i = ctx.fresh('last'); ctx.eff = True
                    return '(RS.lastIndex %s).bind fun %s =>\n%s' % (paren(v), i, k(('index', p, i)))
                return self.read_place(p, ctx, with_v)
            return self.to_place(strip_paren(e[1])[1], ctx, with_p)
        raise Unsupported('assignment target %s' % t)

    def place_type(self, p, ctx):
        if p[0] == 'var': return ctx.lookup(p[1])[1]
        if p[0] == 'field':
            bt = self.place_type(p[1], ctx)
            if bt and bt[0] == 'struct': return self.crate.ftype(bt[1], p[2])
            if bt and bt[0] == 'tuple': return bt[1][int(p[2])]
            return None
        if p[0] == 'index':
            bt = self.place_type(p[1], ctx)
            return bt[1] if bt and bt[0] == 'vec' else None

    def read_place(self, p, ctx, k, hint='t'):
        if p[0] == 'var':
            return k(*ctx.lookup(p[1]))
        if p[0] == 'field':
            def after(b, bt):
                if bt and bt[0] == 'struct' and self.has_struct(bt[1]) and p[2] in self.sinfo(bt[1])[1]:
                    return k('%s.%s' % (paren(b), self.sinfo(bt[1])[1][p[2]]), self.crate.ftype(bt[1], p[2]))
                if bt and bt[0] == 'tuple': return k(self.tuple_proj(b, int(p[2]), len(bt[1])), bt[1][int(p[2])])
                raise Unsupported('field place .%s' % p[2])
            return self.read_place(p[1], ctx, after)
        if p[0] == 'index':
            def after(b, bt):
                if not bt or bt[0] != 'vec': raise Unsupported('index place on %r' % (bt,))
                return self.bind(ctx, 'RS.index %s %s' % (paren(b), paren(p[2])), bt[1], k, hint)
            return self.read_place(p[1], ctx, after)
        raise Unsupported('place')

    def write_place(self, p, val, vt, ctx, k0):
        if p[0] == 'var':
            n = p[1]; old_t = ctx.lookup(n)[1]
            k1 = k0
            if n in ctx.writeback:
                parent = ctx.writeback[n]
                k1 = lambda: self.write_place(parent, 'some %s' % ctx.lookup(n)[0], ('opt', old_t), ctx, k0)
            if re.match(r'^[A-Za-z_][A-Za-z0-9_\']*$', val):
                ctx.bind_var(n, val, old_t or vt); return k1()
            v = ctx.fresh(n)
            ctx.bind_var(n, v, old_t or vt)
            return 'let %s := %s\n%s' % (v, val, k1())
        if p[0] == 'field':
            def after(b, bt):
                if not (bt and bt[0] == 'struct' and self.has_struct(bt[1])): raise Unsupported('field write on %r' % (bt,))
                return self.write_place(p[1], '{ %s with %s := %s }' % (b, self.sinfo(bt[1])[1][p[2]], val), bt, ctx, k0)
            return self.read_place(p[1], ctx, after)
        if p[0] == 'index':
            def after(b, bt):
                a = ctx.fresh('arr')
                return '(RS.setIndex %s %s %s).bind fun %s =>\n%s' % (paren(b), paren(p[2]), paren(val), a, self.write_place(p[1], a, bt, ctx, k0))
            return self.read_place(p[1], ctx, after)
        raise Unsupported('place')

    # ---- control flow -----------------------------------------------------------------------------
    def state_term(self, names, ctx):
        vals = [ctx.lookup(n)[0] for n in names]
        if not vals: return '()'
        if len(vals) == 1: return vals[0]
        return '(' + ', '.join(vals) + ')'

    def unpack_state(self, names, var, ctx):
        """rebinds the loop-carried names from the tuple `var`; returns the `let` lines"""
        lines = []
        for i, n in enumerate(names):
            ty = ctx.lookup(n)[1]
            v = ctx.fresh(n)
            lines.append('let %s := %s' % (v, self.tuple_proj(var, i, len(names))))
            ctx.bind_var(n, v, ty)
        return '\n'.join(lines) + ('\n' if lines else '')

    def ret_value(self, v, ctx):
        if ctx.inouts:
            return '(' + ', '.join([ctx.lookup(n)[0] for n in ctx.inouts] + [v]) + ')'
        return v

    def emit_return(self, v, ctx):
        val = self.ret_value(v, ctx)
        return self.emit_return_raw(val, ctx, len(ctx.frames) - 1)

    def emit_return_raw(self, val, ctx, depth):
        fr = ctx.frames[depth]
        if fr.kind == 'fn': return paren(val) if ctx.pure_mode else '.ok %s' % paren(val)
        if fr.kind == 'loop_step': return '.ok (.ret %s)' % paren(val)
        raise Unsupported('return inside a loop translated without early exits')

    def emit_break(self, ctx):
        fr = ctx.frames[-1]
        if fr.kind != 'loop_step': raise Unsupported('break outside a loop')
        return '.ok (.brk %s)' % paren(self.state_term(fr.state, ctx))

    def emit_continue(self, ctx):
        fr = ctx.frames[-1]
        if fr.kind == 'loop_step': return '.ok (.next %s)' % paren(self.state_term(fr.state, ctx))
        if fr.kind == 'loop_simple': return '.ok %s' % paren(self.state_term(fr.state, ctx))
        raise Unsupported('continue outside a loop')

    def walk(self, node, f, in_loop=False):
        """pre-order walk over AST tuples/lists; `f(node, in_loop)` returns False to prune"""
        if isinstance(node, tuple):
            if node and isinstance(node[0], str):
                if node[0] == 'closure': return
                if f(node, in_loop) is False: return
                il = in_loop or node[0] in ('while', 'whilelet', 'loop', 'for')
                for ch in node[1:]: self.walk(ch, f, il)
            else:
                for ch in node: self.walk(ch, f, in_loop)
        elif isinstance(node, list):
            for ch in node: self.walk(ch, f, in_loop)

    def has_jump(self, node, for_loop_body=False):
        """does `node` contain return / `?` anywhere, or break/continue that belong to the enclosing loop?"""
        found = [False]
        def f(n, in_loop):
            if n[0] in ('return', 'try'): found[0] = True
            if n[0] in ('break', 'continue') and not in_loop: found[0] = True
        self.walk(node, f)
        return found[0]

    def needs_step(self, body):
        found = [False]
        def f(n, in_loop):
            if n[0] in ('return', 'try'): found[0] = True
            if n[0] == 'break' and not in_loop: found[0] = True
        self.walk(body, f)
        return found[0]

    def root_of(self, e, ctx):
        e = strip_paren(e)
        while True:
            if e[0] in ('field', 'index'): e = strip_paren(e[1])
            elif e[0] == 'unary' and e[1] in ('*', '&mut', '&'): e = strip_paren(e[2])
            elif e[0] == 'mcall' and e[2] in ('last_mut', 'unwrap', 'iter_mut', 'as_mut'): e = strip_paren(e[1])
            else: break
        if e[0] == 'path' and len(e[1]) == 1:
            n = e[1][0]
            if n in ctx.aliases:
                p = ctx.aliases[n]
                while p[0] != 'var': p = p[1]
                return p[1]
            return n
        return None

    MUT_VEC = {'push', 'clear', 'pop', 'truncate', 'resize', 'extend', 'extend_from_slice'}

    def assigned_roots(self, node, ctx):
        """outer variables that `node` may assign (conservative), in a stable order"""
        out = []; local_alias = {}
        def add(n):
            if n is not None and n in ctx.env and n not in out: out.append(n)
        def f(n, in_loop):
            if n[0] == 'assign':
                r = self.root_of(n[2], ctx)
                add(local_alias.get(r, r))
            elif n[0] == 'let' and n[3] is not None and n[1][0] == 'pid':
                init = strip_paren(n[3])
                if init[0] == 'mcall' and init[2] == 'unwrap' and strip_paren(init[1])[0] == 'mcall' and strip_paren(init[1])[2] == 'last_mut':
                    local_alias[n[1][1]] = self.root_of(init, ctx)
            elif n[0] == 'unary' and n[1] == '&mut':
                r = self.root_of(n[2], ctx); add(local_alias.get(r, r))
            elif n[0] == 'mcall':
                m = n[2]
                mut = m in self.MUT_VEC or any(f_.ast[3] and f_.ast[3][0] == ('self', 'refmut') for f_ in self.crate.by_name.get(m, []))
                if mut: add(self.root_of(n[1], ctx))
        self.walk(node, f)
        return out

    def tr_if_value(self, e, ctx, k, hint):
        """`if` (or a cfg switch) whose value is used; also used for statement-level `if` via k ignoring the value"""
        if e[0] == 'cfgif':
            cond_ast, then_b, else_b = ('cfgcond',), e[2], e[3]
        else:
            cond_ast, then_b, else_b = e[1], e[2], e[3]
        def with_cond(cterm):
            if else_b is None: else_blk = ('block', [], None)
            else: else_blk = else_b if else_b[0] == 'block' else ('block', [], else_b)
            jumps = self.has_jump(then_b) or self.has_jump(else_blk)
            saved_env = dict(ctx.env); saved_alias = dict(ctx.aliases)
            if jumps:
                a = self.tr_block(then_b, ctx, k)
                ctx.env = dict(saved_env); ctx.aliases = dict(saved_alias)
                b = self.tr_block(else_blk, ctx, k)
                return 'if %s then\n%s\nelse\n%s' % (cterm, indent(a), indent(b))
            roots = [r for r in self.assigned_roots((then_b, else_blk), ctx)]
            tys = [None]
            def kend(v, vt):
                tys[0] = tys[0] or vt
                st = [ctx.lookup(n)[0] for n in roots]
                parts = st + ([v] if vt != 'unit' else [])
                if not parts: return '.ok ()'
                return '.ok %s' % (paren(parts[0]) if len(parts) == 1 else '(' + ', '.join(parts) + ')')
            a = self.tr_block(then_b, ctx, kend); t_then = tys[0]
            ctx.env = dict(saved_env); ctx.aliases = dict(saved_alias); tys[0] = None
            b = self.tr_block(else_blk, ctx, kend); t_else = tys[0]
            ctx.env = dict(saved_env); ctx.aliases = dict(saved_alias)
            vt = t_then if (t_then is not None and t_then != 'unit') else t_else
            if vt is None: vt = 'unit'
            has_val = vt != 'unit'
            n = len(roots) + (1 if has_val else 0)
            m = 'if %s then\n%s\nelse\n%s' % (cterm, indent(a), indent(b))
            if n == 0:
                return '(%s : R _).bind fun _ =>\n%s' % (m, k('()', 'unit'))
            if n == 1 and roots:
                ty = ctx.lookup(roots[0])[1]; v = ctx.fresh(roots[0]); ctx.bind_var(roots[0], v, ty)
                return '(%s : R _).bind fun %s =>\n%s' % (m, v, k('()', 'unit'))
            p = ctx.fresh('j')
            lets = []
            for i, r in enumerate(roots):
                ty = ctx.lookup(r)[1]; v = ctx.fresh(r)
                lets.append('let %s := %s' % (v, self.tuple_proj(p, i, n))); ctx.bind_var(r, v, ty)
            val = self.tuple_proj(p, n - 1, n) if has_val else '()'
            if n == 1 and not roots:
                body = k(p, vt)
                if body.strip() == '.ok %s' % p: return m
                return '(%s : R _).bind fun %s =>\n%s' % (m, p, body)
            return '(%s : R _).bind fun %s =>\n%s%s' % (m, p, ''.join(l + '\n' for l in lets), k(val, vt))
        cond_ast2 = strip_paren(cond_ast) if cond_ast[0] != 'cfgcond' else cond_ast
        try:
            cterm = self.cond(cond_ast2, ctx)
        except Impure:
            return self.cond_cps(cond_ast2, ctx, with_cond)
        return with_cond(cterm)

    def cond_cps(self, e, ctx, k):
        """a condition with effectful operands: evaluate the operands, then form the proposition"""
        e = strip_paren(e)
        if e[0] == 'binary' and e[1] in CMP:
            return self.tr_list([e[2], e[3]], ctx, lambda vs: k('%s %s %s' % (paren(vs[0][0]), CMP[e[1]], paren(vs[1][0]))))
        if e[0] == 'unary' and e[1] == '!':
            return self.cond_cps(e[2], ctx, lambda c_: k('¬ (%s)' % c_))
        return self.tr(e, ctx, lambda b, bt: k('%s = true' % paren(b)), 'b')

    def pattern_lean(self, pat, ty, ctx):
        """Lean pattern for a Rust pattern; binds its variables in ctx.env"""
        t = pat[0]
        if t == 'pwild': return '_'
        if t == 'pid':
            if pat[3]: raise Unsupported('`ref` pattern')
            v = ctx.fresh(pat[1]); ctx.bind_var(pat[1], v, ty); return v
        if t == 'pref': return self.pattern_lean(pat[1], ty, ctx)
        if t == 'ptstruct' and pat[1][-1] == 'Some' and len(pat[2]) == 1:
            return 'some ' + self.pattern_lean(pat[2][0], ty[1] if ty and ty[0] == 'opt' else None, ctx)
        if t == 'ptstruct' and pat[1][-1] == 'Ok' and len(pat[2]) == 1:
            return '.ok ' + self.pattern_lean(pat[2][0], ty[1] if ty and ty[0] == 'res' else None, ctx)
        if t == 'ptstruct' and pat[1][-1] == 'Err': return '.err'
        if t == 'ppath' and pat[1][-1] == 'None': return 'none'
        if t == 'ptuple':
            return '(' + ', '.join(self.pattern_lean(p, ty[1][i] if ty and ty[0] == 'tuple' else None, ctx) for i, p in enumerate(pat[1])) + ')'
        if t == 'plit':
            l = pat[1]
            if l[0] == 'int': return str(l[1])
            if l[0] == 'bool': return 'true' if l[1] else 'false'
        raise Unsupported('pattern %s' % t)

    def tr_match_value(self, e, ctx, k, hint):
        if e[0] == 'iflet':
            scrut = e[2]
            arms = [(e[1], None, e[3]), (('pwild',), None, e[4] if e[4] is not None else ('block', [], None))]
        else:
            scrut = e[1]; arms = e[2]
        if any(g is not None for _, g, _ in arms): raise Unsupported('match guard')
        wb_place = [None]
        def with_scrut(s, st):
            bodies = [b if b[0] == 'block' else ('block', [], b) for _, _, b in arms]
            jumps = any(self.has_jump(b) for b in bodies)
            saved_env = dict(ctx.env); saved_alias = dict(ctx.aliases)
            roots = [] if jumps else self.assigned_roots(tuple(bodies), ctx)
            tys = [None]
            def kend(v, vt):
                if vt is not None and vt != 'unit' or tys[0] is None: tys[0] = vt if tys[0] in (None, 'unit') else tys[0]
                stv = [ctx.lookup(n)[0] for n in roots]
                parts = stv + ([v] if vt != 'unit' else [])
                if not parts: return '.ok ()'
                return '.ok %s' % (paren(parts[0]) if len(parts) == 1 else '(' + ', '.join(parts) + ')')
            out = []
            for (pat, _, _), body in zip(arms, bodies):
                ctx.env = dict(saved_env); ctx.aliases = dict(saved_alias)
                lp = self.pattern_lean(pat, st, ctx)
                saved_wb = dict(ctx.writeback)
                if wb_place[0] is not None and pat[0] == 'ptstruct': ctx.writeback[pat[2][0][1]] = wb_place[0]
                code = self.tr_block(body, ctx, k if jumps else kend)
                ctx.writeback = saved_wb
                out.append('  | %s =>\n%s' % (lp, indent(code, 4)))
            ctx.env = dict(saved_env); ctx.aliases = dict(saved_alias)
            m = 'match %s with\n%s' % (s, '\n'.join(out))
            if jumps: return '(' + m + ')'
            vt = tys[0] or 'unit'; has_val = vt != 'unit'
            n = len(roots) + (1 if has_val else 0)
            if n == 0: return '(%s : R _).bind fun _ =>\n%s' % (m, k('()', 'unit'))
            if n == 1 and roots:
                ty = ctx.lookup(roots[0])[1]; v = ctx.fresh(roots[0]); ctx.bind_var(roots[0], v, ty)
                return '(%s : R _).bind fun %s =>\n%s' % (m, v, k('()', 'unit'))
            p = ctx.fresh('j'); lets = []
            for i, r in enumerate(roots):
                ty = ctx.lookup(r)[1]; v = ctx.fresh(r)
                lets.append('let %s := %s' % (v, self.tuple_proj(p, i, n))); ctx.bind_var(r, v, ty)
            val = self.tuple_proj(p, n - 1, n) if has_val else '()'
            if n == 1 and not roots:
                body = k(p, vt)
                if body.strip() == '.ok %s' % p: return '(' + m + ')'
                return '(%s : R _).bind fun %s =>\n%s' % (m, p, body)
            return '(%s : R _).bind fun %s =>\n%s%s' % (m, p, ''.join(l + '\n' for l in lets), k(val, vt))
        sc0 = strip_paren(scrut)
        if sc0[0] == 'unary' and sc0[1] == '&mut':
            # `if let Some(x) = &mut place { … }`: x refers into `place`; its updates are written back
            for pat, _, _ in arms:
                if not (pat[0] == 'pwild' or (pat[0] == 'ppath' and pat[1][-1] == 'None') or (pat[0] == 'ptstruct' and pat[1][-1] == 'Some' and len(pat[2]) == 1 and pat[2][0][0] == 'pid')):
                    raise Unsupported('pattern over a `&mut` scrutinee')
            return self.to_place(sc0[2], ctx, lambda p: (wb_place.__setitem__(0, p), self.read_place(p, ctx, lambda v, vt: with_scrut(v, vt)))[1])
        return self.tr(scrut, ctx, with_scrut, 'm')

    # ---- blocks, statements, loops ------------------------------------------------------------------
    def tr_block(self, b, ctx, k):
        """translate a block; `k(value, type)` continues after it (block-local names are dropped first)"""
        if b[0] != 'block': return self.tr(b, ctx, k)
        nb = self.norm_cfg(b)
        if nb is not b: return self.tr(nb, ctx, k)
        outer = dict(ctx.env); outer_alias = dict(ctx.aliases)
        declared = []
        def finish(v, vt):
            for n in declared:
                if n in outer: ctx.env[n] = outer[n]
                else: ctx.env.pop(n, None)
                if n in outer_alias: ctx.aliases[n] = outer_alias[n]
                else: ctx.aliases.pop(n, None)
            return k(v, vt)
        return self.tr_stmts(b[1], b[2], ctx, finish, declared)

    def tr_stmts(self, stmts, tail, ctx, k, declared):
        if not stmts:
            if tail is None: return k('()', 'unit')
            return self.tr(tail, ctx, k, 'r')
        s = stmts[0]; rest = lambda: self.tr_stmts(stmts[1:], tail, ctx, k, declared)
        if s[0] == 'item':
            if s[1] is None: return rest()
            raise Unsupported('nested item')
        if s[0] == 'let':
            return self.tr_let(s, ctx, rest, declared)
        e = s[1]
        # a diverging last statement (`return x;` with no tail) needs no continuation
        return self.tr_stmt_expr(e, ctx, rest)

    def pat_names(self, pat):
        if pat[0] == 'pid': return [pat[1]]
        if pat[0] in ('pref',): return self.pat_names(pat[1])
        if pat[0] == 'ptuple': return [n for p in pat[1] for n in self.pat_names(p)]
        return []

    def bind_pattern(self, pat, term, ty, ctx, declared):
        """bind an irrefutable pattern to a pure term; returns `let` lines"""
        if pat[0] == 'pwild': return ''
        if pat[0] == 'pref': return self.bind_pattern(pat[1], term, ty, ctx, declared)
        if pat[0] == 'pid':
            n = pat[1]; declared.append(n); ctx.aliases.pop(n, None)
            if re.match(r'^[A-Za-z_][A-Za-z0-9_\']*$|^[0-9]+$', term):
                ctx.bind_var(n, term, ty); return ''
            v = ctx.fresh(n); ctx.bind_var(n, v, ty)
            return 'let %s := %s\n' % (v, term)
        if pat[0] == 'ptuple':
            n = len(pat[1]); out = ''
            tmp = term
            if not re.match(r'^[A-Za-z_][A-Za-z0-9_\']*$', term):
                tmp = ctx.fresh('p'); out += 'let %s := %s\n' % (tmp, term)
            for i, p in enumerate(pat[1]):
                out += self.bind_pattern(p, self.tuple_proj(tmp, i, n), ty[1][i] if ty and ty[0] == 'tuple' else None, ctx, declared)
            return out
        raise Unsupported('let pattern %s' % pat[0])

    def tr_let(self, s, ctx, rest, declared):
        _, pat, ty_ast, init, els = s
        if init is None or els is not None: raise Unsupported('let without initialiser / let-else')
        init = strip_paren(init)
        decl_t = conv_type(ty_ast, ctx) if ty_ast is not None else None
        # `let w = { if cond { Self::f } else { Self::g } };`  -> a function selected by a condition
        sel = init
        while sel[0] == 'block' and not sel[1] and sel[2] is not None: sel = strip_paren(sel[2])
        if pat[0] == 'pid' and sel[0] == 'if' and sel[3] is not None:
            def single_path(b):
                b = strip_paren(b)
                while b[0] == 'block' and not b[1] and b[2] is not None: b = strip_paren(b[2])
                return b if b[0] == 'path' and len(b[1]) >= 2 else None
            p1, p2 = single_path(sel[2]), single_path(sel[3])
            if p1 is not None and p2 is not None:
                f1, f2 = self.resolve_path_fn(p1[1], ctx), self.resolve_path_fn(p2[1], ctx)
                if f1 is not None and f2 is not None:
                    self.ensure(f1); self.ensure(f2)
                    cterm = self.cond(sel[1], ctx)
                    declared.append(pat[1]); ctx.fnvars[pat[1]] = (cterm, f1, f2)
                    return rest()
        # `let x = v.last_mut().unwrap();`  -> x aliases the last element of v
        if pat[0] == 'pid' and init[0] == 'mcall' and init[2] == 'unwrap' and strip_paren(init[1])[0] == 'mcall' and strip_paren(init[1])[2] == 'last_mut':
            vec_ast = strip_paren(init[1])[1]
            def with_place(p):
                def with_v(v, vt):
                    i = ctx.fresh('last')
                    declared.append(pat[1]); ctx.aliases[pat[1]] = ('index', p, i); ctx.env.pop(pat[1], None)
                    return '(RS.lastIndex %s).bind fun %s =>\n%s' % (paren(v), i, rest())
                return self.read_place(p, ctx, with_v)
            return self.to_place(vec_ast, ctx, with_place)
        # pairwise binding of a tuple literal
        if pat[0] == 'ptuple' and init[0] == 'tuple' and len(pat[1]) == len(init[1]):
            def after(vs):
                out = ''
                for p, (v, vt) in zip(pat[1], vs):
                    out += self.bind_pattern(p, v, vt, ctx, declared)
                return out + rest()
            return self.tr_list(init[1], ctx, after)
        hint = pat[1] if pat[0] == 'pid' else 'p'
        def after(v, vt):
            t_ = decl_t or vt
            if t_ and vt and isinstance(t_, tuple) and None in t_ and vt is not None: t_ = vt if None not in (vt if isinstance(vt, tuple) else ()) else t_
            return self.bind_pattern(pat, v, t_, ctx, declared) + rest()
        return self.tr(init, ctx, after, hint)

    def tr_stmt_expr(self, e, ctx, k0):
        e = strip_paren(e); t = e[0]
        if t == 'assign':
            op, lhs, rhs = e[1], e[2], e[3]
            if op == '=':
                return self.tr(rhs, ctx, lambda v, vt: self.to_place(lhs, ctx, lambda p: self.write_place(p, v, vt, ctx, k0)))
            bop = op[:-1]
            def after_rhs(b, bt):
                def with_place(p):
                    def with_old(a, at):
                        kind, term, ty = self.combine_binary(bop, a, at, b, bt, ctx, rhs)
                        if kind == 'eff':
                            return self.bind(ctx, term, ty, lambda v, vt: self.write_place(p, v, vt, ctx, k0), self.root_hint(p))
                        return self.write_place(p, term, ty, ctx, k0)
                    return self.read_place(p, ctx, with_old, 'w')
                return self.to_place(lhs, ctx, with_place)
            return self.tr(rhs, ctx, after_rhs)
        if t == 'for': return self.tr_for(e, ctx, k0)
        if t == 'while': return self.tr_while(e, ctx, k0)
        if t == 'whilelet':
            body = ('block', [('expr', ('match', e[2], [(e[1], None, e[3]), (('pwild',), None, ('block', [('expr', ('break', None), True)], None))]), False)], None)
            return self.tr_loop(body, ctx, k0)
        if t == 'loop': return self.tr_loop(e[1], ctx, k0)
        if t == 'cfg': raise Unsupported('a lone #[cfg] statement')
        return self.tr(e, ctx, lambda v, vt: k0())

    def root_hint(self, p):
        while p[0] != 'var': p = p[1]
        return p[1]

    def loop_state(self, body, ctx, extra=()):
        roots = self.assigned_roots(body, ctx)
        for n in extra:
            if n in ctx.env and n not in roots: roots.append(n)
        return roots

    def after_loop(self, loop_term, names, step, ctx, k0):
        """code after a loop: rebind the carried names, propagate an early `return`"""
        if not step:
            if not names: return '(%s).bind fun _ =>\n%s' % (loop_term, k0())
            st = ctx.fresh('st')
            if len(names) == 1:
                ty = ctx.lookup(names[0])[1]; v = ctx.fresh(names[0]); ctx.bind_var(names[0], v, ty)
                return '(%s).bind fun %s =>\n%s' % (loop_term, v, k0())
            return '(%s).bind fun %s =>\n%s%s' % (loop_term, st, self.unpack_state(names, st, ctx), k0())
        ex = ctx.fresh('ex'); rv = ctx.fresh('rv'); st = ctx.fresh('st')
        if ctx.frames[-1].kind == 'loop_simple':
            # the inner loop only `break`s (a `return` would have made the enclosing loop a Step loop): no early return to propagate
            loop_term = loop_term.replace('RS.loopB ', 'RS.loopB (ρ := Empty) ', 1).replace('RS.forRangeB ', 'RS.forRangeB (ρ := Empty) ', 1).replace('RS.forListB', 'RS.forListB (ρ := Empty)', 1)
            ret = 'nomatch %s' % rv
        else:
            ret = self.emit_return_raw(rv, ctx, len(ctx.frames) - 1)
        lets = self.unpack_state(names, st, ctx)
        return '(%s).bind fun %s =>\nmatch %s with\n  | .ret %s => %s\n  | .done %s =>\n%s' % (loop_term, ex, ex, rv, ret, st, indent(lets + k0(), 4))

    def loop_body(self, body, names, step, ctx, binder, pre=''):
        """`fun <binder> st => …` for a loop body; the body falls through to the next iteration"""
        saved_env = dict(ctx.env); saved_alias = dict(ctx.aliases)
        st = ctx.fresh('st')
        lets = self.unpack_state(names, st, ctx) if len(names) != 1 else ''
        if len(names) == 1:
            ty = ctx.lookup(names[0])[1]; v = ctx.fresh(names[0]); ctx.bind_var(names[0], v, ty); st = v
        ctx.frames.append(Frame('loop_step' if step else 'loop_simple', names))
        try:
            code = pre + self.tr_block(body, ctx, lambda v, vt: self.emit_continue(ctx))
        finally:
            ctx.frames.pop()
        ctx.env = saved_env; ctx.aliases = saved_alias
        return '(fun %s%s =>\n%s)' % (binder, st if names else '_', indent(lets + code))

    def tr_for(self, e, ctx, k0):
        _, pat, it, body = e
        it = strip_paren(it)
        names = self.loop_state(body, ctx); step = self.needs_step(body)
        init = self.state_term(names, ctx)
        suffix = 'B' if step else ''
        # `.iter()` on a vector is the vector; `(a..b).rev()`; `v.iter().enumerate()`
        rev = False; enum = False
        if it[0] == 'mcall' and it[2] == 'rev' and not it[3] and strip_paren(it[1])[0] == 'range':
            rev = True; it = strip_paren(it[1])
        if it[0] == 'mcall' and it[2] == 'enumerate' and not it[3]:
            enum = True; it = strip_paren(it[1])
        def bind_loop_pat(p, elem_t):
            """-> (lambda binder name, `let` lines binding the pattern's names)"""
            while p[0] == 'pref': p = p[1]
            if p[0] == 'pwild': return '_', ''
            if p[0] == 'pid':
                iv = ctx.fresh(p[1]); ctx.bind_var(p[1], iv, elem_t); return iv, ''
            if p[0] == 'ptuple':
                iv = ctx.fresh('it'); return iv, self.bind_pattern(p, iv, elem_t, ctx, [])
            raise Unsupported('for pattern')
        if it[0] == 'range' and it[1] is not None and it[2] is not None:
            inclusive = it[3]
            def after(vs):
                (lo, _), (hi, _) = vs
                if inclusive: hi = '(%s + 1)' % paren(hi)
                if rev:
                    saved = dict(ctx.env); iv, pre = bind_loop_pat(pat, 'usize')
                    fn_ = self.loop_body(body, names, step, ctx, iv + ' ', pre); ctx.env = saved
                    return self.after_loop('RS.forRangeRev%s %s %s %s\n%s' % (suffix, paren(lo), paren(hi), paren(init), indent(fn_)), names, step, ctx, k0)
                saved = dict(ctx.env)
                iv = '_'
                if pat[0] == 'pid': iv = ctx.fresh(pat[1]); ctx.bind_var(pat[1], iv, 'usize')
                elif pat[0] != 'pwild': raise Unsupported('for pattern')
                fn_ = self.loop_body(body, names, step, ctx, iv + ' ')
                ctx.env = saved
                return self.after_loop('RS.forRange%s %s %s %s\n%s' % (suffix, paren(lo), paren(hi), paren(init), indent(fn_)), names, step, ctx, k0)
            return self.tr_list([it[1], it[2]], ctx, after)
        if it[0] == 'mcall' and it[2] == 'step_by' and strip_paren(it[1])[0] == 'range' and len(it[3]) == 1:
            r = strip_paren(it[1])
            if r[1] is None or r[2] is None or r[3]: raise Unsupported('step_by range')
            def after_s(vs):
                (lo, _), (hi, _), (st_, _) = vs
                saved = dict(ctx.env); iv = '_'
                if pat[0] == 'pid': iv = ctx.fresh(pat[1]); ctx.bind_var(pat[1], iv, 'usize')
                elif pat[0] != 'pwild': raise Unsupported('for pattern')
                fn_ = self.loop_body(body, names, step, ctx, iv + ' ')
                ctx.env = saved
                return self.after_loop('RS.forStep%s %s %s %s %s\n%s' % (suffix, paren(lo), paren(hi), paren(st_), paren(init), indent(fn_)), names, step, ctx, k0)
            return self.tr_list([r[1], r[2], it[3][0]], ctx, after_s)
        def after_it(v, vt):
            if vt and vt[0] == 'struct' and self.crate.lookup(vt[1], 'next') is not None and not enum:
                # the iterator protocol: `let mut it = …; while let Some(pat) = it.next() { body }`
                name = '__it%d' % ctx.counter.get('__it', 0); ctx.counter['__it'] = ctx.counter.get('__it', 0) + 1
                ctx.bind_var(name, v, vt)
                loop = ('whilelet', ('ptstruct', ['Some'], [pat]), ('mcall', ('path', [name], None), 'next', [], None), body)
                return self.tr_stmt_expr(loop, ctx, k0)
            if enum and vt and vt[0] in ('vec', 'list'):
                lst = '(RS.enumerate %s)' % (v if vt[0] == 'list' else '%s.toList' % paren(v))
                saved = dict(ctx.env); iv, pre = bind_loop_pat(pat, ('tuple', ['usize', vt[1]]))
                fn_ = self.loop_body(body, names, step, ctx, iv + ' ', pre); ctx.env = saved
                return self.after_loop('RS.forList%s\n%s\n  %s %s' % (suffix, indent(fn_), lst, paren(init)), names, step, ctx, k0)
            if vt == 'range':
                saved = dict(ctx.env); iv = '_'
                if pat[0] == 'pid': iv = ctx.fresh(pat[1]); ctx.bind_var(pat[1], iv, 'usize')
                elif pat[0] != 'pwild': raise Unsupported('for pattern')
                fn_ = self.loop_body(body, names, step, ctx, iv + ' ')
                ctx.env = saved
                return self.after_loop('RS.forRange%s %s.1 %s.2 %s\n%s' % (suffix, paren(v), paren(v), paren(init), indent(fn_)), names, step, ctx, k0)
            if not vt or vt[0] not in ('vec', 'list'): raise Unsupported('for over %r' % (vt,))
            lst = v if vt[0] == 'list' else '%s.toList' % paren(v)
            saved = dict(ctx.env)
            iv, pre = bind_loop_pat(pat, vt[1])
            fn_ = self.loop_body(body, names, step, ctx, iv + ' ', pre)
            ctx.env = saved
            return self.after_loop('RS.forList%s\n%s\n  %s %s' % (suffix, indent(fn_), paren(lst), paren(init)), names, step, ctx, k0)
        return self.tr(it, ctx, after_it, 'it')

    def tr_while(self, e, ctx, k0):
        _, cond_ast, body = e
        if self.needs_step(body):
            nb = ('block', [('expr', ('if', cond_ast, body, ('block', [('expr', ('break', None), True)], None)), False)], None)
            return self.tr_loop(nb, ctx, k0)
        names = self.loop_state(body, ctx); init = self.state_term(names, ctx)
        # condition as a function of the state
        saved_env = dict(ctx.env)
        st = ctx.fresh('st')
        lets = self.unpack_state(names, st, ctx) if len(names) != 1 else ''
        if len(names) == 1:
            ty = ctx.lookup(names[0])[1]; v = ctx.fresh(names[0]); ctx.bind_var(names[0], v, ty); st = v
        ccode = self.tr(cond_ast, ctx, lambda b, bt: '.ok %s' % paren(b), 'b')
        ctx.env = saved_env
        cfn = '(fun %s =>\n%s)' % (st if names else '_', indent(lets + ccode))
        bfn = self.loop_body(body, names, False, ctx, '')
        return self.after_loop('RS.whileLoop %s\n%s\n%s' % (paren(init), indent(cfn), indent(bfn)), names, False, ctx, k0)

    def has_break(self, body):
        found = [False]
        def f(n, in_loop):
            if n[0] == 'break' and not in_loop: found[0] = True
        self.walk(body, f)
        return found[0]

    def tr_loop(self, body, ctx, k0):
        names = self.loop_state(body, ctx); init = self.state_term(names, ctx)
        bfn = self.loop_body(body, names, True, ctx, '')
        if not self.has_break(body):
            # a `loop` without `break` can only be left by `return`: what follows it is unreachable
            k0 = lambda: '.error .fuel'
        return self.after_loop('RS.loopB %s\n%s' % (paren(init), indent(bfn)), names, True, ctx, k0)

    # ---- functions -----------------------------------------------------------------------------------
    def ensure(self, fi):
        if fi.state == 'done': return
        if fi.state == 'failed': raise Unsupported('%s::%s is not translated (%s)' % (fi.k[0], fi.k[1], fi.error))
        if fi.state == 'busy':
            fi.recursive = True; return
        fi.state = 'busy'
        try:
            self.translate_fn(fi)
            fi.state = 'done'; self.order.append(fi)
        except Unsupported as ex:
            fi.state = 'failed'; fi.error = str(ex); raise
        except RecursionError:
            fi.state = 'failed'; fi.error = 'too deeply nested'; raise Unsupported(fi.error)

    def translate_fn(self, fi):
        ast = fi.ast
        if fi.meta.get('cfg') == ('test',): raise Unsupported('test code')
        if fi.meta.get('cfg') and fi.meta['cfg'][0] == 'other': raise Unsupported('conditional compilation the translator does not model: ' + fi.meta['cfg'][1])
        ctx0 = Ctx(self, fi); self.setup_generics(ctx0)
        params = []   # (lean name, lean type)
        inouts = []
        for p in ast[3]:
            if p[0] == 'self':
                if not fi.owner: raise Unsupported('self outside an impl')
                params.append(('self', ('struct', fi.owner)))
                if p[1] == 'refmut': inouts.append('self')
            else:
                pat, ty = p[1], p[2]
                if pat[0] == 'pwild': name = '_'
                elif pat[0] == 'pid': name = pat[1]
                else: raise Unsupported('parameter pattern')
                if ty[0] == 'ref' and ty[1]: inouts.append(name)
                params.append((name, conv_type(ty, ctx0)))
        ret_t = conv_type(ast[4], ctx0)
        fi.ret_t = ret_t; fi.inouts = inouts; fi.params_t = [t for _, t in params]
        lean_params = [(lean_ident(n) if n != '_' else '_', lean_type(t)) for n, t in params]
        full_ret = lean_type(ret_t) if not inouts else '(%s × %s)' % (' × '.join(lean_type(t) for n, t in params if n in inouts), lean_type(ret_t))
        def run(pure_mode):
            ctx = Ctx(self, fi); self.setup_generics(ctx); ctx.pure_mode = pure_mode
            ctx.inouts = inouts; ctx.ret_t = ret_t
            for n, t in params:
                if n != '_':
                    ctx.counter[lean_ident(n)] = 1; ctx.bind_var(n, lean_ident(n), t)
            ctx.counter['c'] = 1
            ctx.frames.append(Frame('fn'))
            body = self.tr_block(ast[5], ctx, lambda v, vt: self.emit_return(v, ctx))
            return body, ctx
        body, ctx = run(False)
        effectful = ctx.eff or bool(re.search(r'\.bind\b|\.error\b|RS\.(forRange|forRangeRev|forList|forStep|whileLoop|loopB)', body))
        if not effectful:
            body, ctx = run(True)
        if fi.recursive: effectful = True
        fi.pure = not effectful; fi.uses_c = ctx.uses_c or fi.recursive
        sig = ''.join(' (%s : %s)' % (n, t) for n, t in lean_params)
        if fi.recursive:
            # structural recursion on an explicit fuel (callers pass RS.FUEL = 2^64); running out is `Panic.fuel`
            sig = ' (fuel_ : Nat)' + sig
            body = 'match fuel_ with\n| 0 => .error .fuel\n| fuel + 1 =>\n' + indent(body)
        if fi.uses_c: sig = ' (c : Cfg)' + sig
        rt = full_ret if fi.pure else 'R %s' % full_ret
        name = self.lean_fn_name(fi)
        doc = '/-- `%s%s` — %s:%d%s -/' % ((fi.owner + '::') if fi.owner else '', fi.name, fi.path, fi.meta['line'], (' (impl %s)' % fi.trait) if fi.trait else '')
        fi.text = '%s\ndef %s%s : %s :=\n%s\n' % (doc, name, sig, rt, indent(body))
        fi.lean_name = name

def translate_crate(repo, exclude=()):
    crate = Crate(repo)
    T = Translator(crate); T.order = []; T.used_consts = {}
    report = {'translated': [], 'untranslated': {}, 'parse_errors': crate.parse_errors}
    for k, fi in crate.fns.items():
        if '%s.%s' % k in exclude:
            fi.state = 'failed'; fi.error = 'its translation was rejected by Lean'
            report['untranslated']['%s.%s' % k] = fi.error
    for k, fi in sorted(crate.fns.items(), key=lambda kv: (kv[1].path, kv[1].meta['line'])):
        if fi.name in SKIP_FNS or fi.meta.get('cfg') == ('test',): continue
        if fi.trait in ('Serializable', 'Debug', 'Display'): continue
        if fi.state == 'failed' and '%s.%s' % k in exclude: continue
        try:
            T.ensure(fi)
        except Unsupported as ex:
            report['untranslated']['%s.%s' % k] = str(ex)
    out = ['-- GENERATED by tools/gen_fns.py from the Rust sources of /repo; do not edit.',
           'import Sucds.Gen.Consts', 'import Sucds.Model.RustSem', 'import Sucds.Model.CompactVector', 'import Sucds.Model.Rank9', 'import Sucds.Model.EliasFano', 'import Sucds.Model.DArray', 'import Sucds.Model.EliasFanoFull', 'import Sucds.Model.Dacs',
           'set_option linter.unusedVariables false', 'namespace Sucds.GenFn', 'open Sucds', '']
    # constants used by the translated bodies
    done = set()
    for (m, n), c in sorted(T.used_consts.items()):
        try:
            v = eval_const(c[3], crate, m)
        except Unsupported as ex:
            report['untranslated']['const %s.%s' % (m, n)] = str(ex); continue
        out.append('/-- `const %s` — %s -/' % (n, m))
        out.append('@[reducible] def %s.%s : Nat := %d' % (m, n, v))
    out.append('')
    for q in crate.auto_used:
        out.append('/-- `struct %s` — %s (generated: no model structure is configured for it) -/' % (q, crate.struct_home[q]))
        out.append('structure %s where' % q)
        for f in crate.struct_order[q]: out.append('  %s : %s' % (crate.auto_fields(q)[f], lean_type(crate.ftype(q, f))))
        out.append('deriving Repr, Inhabited\n')
    for fi in T.order:
        out.append(fi.text)
        report['translated'].append({'name': fi.lean_name, 'src': '%s:%d' % (fi.path, fi.meta['line']), 'pure': fi.pure,
                                     'sha': hashlib.sha256(fi.text.encode()).hexdigest()[:12]})
    out.append('end Sucds.GenFn')
    return '\n'.join(out) + '\n', report

def lean_rejects(outp):
    """names of generated definitions that Lean does not accept (empty when the file checks)"""
    import subprocess
    lean_dir = os.path.dirname(os.path.dirname(os.path.dirname(os.path.abspath(outp))))
    r = subprocess.run(['lake', 'env', 'lean', os.path.abspath(outp)], cwd=lean_dir, capture_output=True, text=True)
    if r.returncode == 0: return []
    lines = open(outp).read().split('\n')
    starts = [(i + 1, m.group(1)) for i, l in enumerate(lines) for m in [re.match(r'def (\S+)', l)] if m]
    bad = []
    for m in re.finditer(r'Fns\.lean:(\d+):\d+: error', r.stdout + r.stderr):
        ln = int(m.group(1)); name = None
        for st, n in starts:
            if st <= ln: name = n
        if name and name not in bad: bad.append(name)
    return bad or ['<unlocated>']

def split_blocks(text):
    """the generated file as an ordered list of (kind, name, block text); blocks are separated by blank lines"""
    blocks = []
    for b in text.split('\n\n'):
        m = re.search(r'^(?:@\[reducible\] )?(def|structure) (\S+)', b, re.M)
        blocks.append(((m.group(1), m.group(2)) if m else (None, None)) + (b,))
    return blocks

def def_text(block):
    """the definition without its doc comment (which carries source line numbers)"""
    i = block.find('\ndef ')
    return block[i + 1:] if i >= 0 else (block if block.startswith('def ') else block)

PIN_NAME = 'FnsPinned.txt'

def bridge_files(fresh_text, outp):
    """Where the fresh translation of a function differs from the pinned text only in its body, keep the pinned text in
    Fns.lean and put the fresh one, with a theorem `fresh = pinned`, into Current.lean. Returns (Fns text, Current text,
    candidate names)."""
    pin_path = os.path.join(os.path.dirname(outp), PIN_NAME)
    head = ['-- GENERATED by tools/gen_fns.py; do not edit.', 'import Sucds.Gen.Fns', 'import Sucds.Model.BridgeTac',
            'set_option linter.unusedVariables false',
            '/-! Fresh translations of the functions whose text differs from the pinned translation (`Gen/FnsPinned.txt`), each',
            '    with a machine-checked proof that it equals the pinned definition in `Gen/Fns.lean`. Empty when the sources are',
            '    the ones the equivalence proofs were written against. -/', 'namespace Sucds.GenFnNow', 'open Sucds Sucds.GenFn', '']
    empty = '\n'.join(head + ['end Sucds.GenFnNow']) + '\n'
    if not os.path.exists(pin_path): return fresh_text, empty, []
    pinned = dict((n, b) for k, n, b in split_blocks(open(pin_path).read()) if k == 'def')
    out = []; cands = []
    for k, n, b in split_blocks(fresh_text):
        if k == 'def' and n in pinned and def_text(pinned[n]) != def_text(b):
            sig_new = def_text(b).split(':=')[0]; sig_old = def_text(pinned[n]).split(':=')[0]
            if sig_new == sig_old and 'fuel_' not in sig_new:
                cands.append((n, b)); out.append(pinned[n]); continue
        out.append(b)
    if not cands: return fresh_text, empty, []
    cur = list(head)
    names = [n for n, _ in cands]
    new_fns = [n for k, n, b in split_blocks(fresh_text) if k == 'def' and n not in pinned and not def_text(b).startswith('@')]
    for n, b in cands:
        cur.append(b)
        # unfold the new definition, the pinned one, and every other changed definition it may call
        unf = ' '.join(['GenFnNow.%s' % m for m in names] + ['GenFn.%s' % n] + ['GenFn.%s' % m for m in new_fns])
        nargs = def_text(b).split(':=')[0].count('(')      # an upper bound on the number of arguments
        cur.append('theorem %s.bridge : @GenFnNow.%s = @GenFn.%s := by\n  repeat (apply funext; intro)\n  all_goals (try unfold %s)\n  all_goals bridge_close\n' % (n, n, n, unf))
    cur.append('end Sucds.GenFnNow')
    return '\n\n'.join(out), '\n'.join(cur) + '\n', names

def detect_renames(fresh_text, outp):
    """a function that disappeared and one that appeared under the same type, with the same signature, whose new name is an
    identifier that occurs nowhere in the pinned sources: a rename. Returns ({new lean name: old lean name}, {new ident: old ident}).
    (Every caller had to be updated for the crate to compile, and a fresh identifier cannot capture any other call.)"""
    pin_path = os.path.join(os.path.dirname(outp), PIN_NAME)
    if not os.path.exists(pin_path): return {}, {}
    pinned = dict((n, b) for k, n, b in split_blocks(open(pin_path).read()) if k == 'def')
    fresh = dict((n, b) for k, n, b in split_blocks(fresh_text) if k == 'def')
    removed = [n for n in pinned if n not in fresh]; added = [n for n in fresh if n not in pinned]
    if not removed or not added or len(removed) > 12: return {}, {}
    try: idents = set(json.load(open(os.path.join(os.path.dirname(os.path.abspath(__file__)), 'pinned_skeleton.json'))).get('idents', []))
    except Exception: return {}, {}
    lean_map = {}; ident_map = {}
    for a in added:
        pre, _, last = a.rpartition('.')
        if last in idents or last.rstrip('_') in idents: continue
        for r in removed:
            rpre, _, rlast = r.rpartition('.')
            if rpre != pre or r in lean_map.values(): continue
            sig_a = re.sub(r'(?<![\w.])%s(?!\w)' % re.escape(a), r, def_text(fresh[a]).split(':=')[0])
            if sig_a == def_text(pinned[r]).split(':=')[0] and ident_map.get(last, rlast) == rlast:
                lean_map[a] = r; ident_map[last] = rlast; break
    return lean_map, ident_map

def apply_renames(text, lean_map):
    for a, r in lean_map.items():
        text = re.sub(r'(?<![\w.])%s(?!\w)' % re.escape(a), r, text)
    return text

def lean_errors(path, lean_dir):
    import subprocess
    r = subprocess.run(['lake', 'env', 'lean', os.path.abspath(path)], cwd=lean_dir, capture_output=True, text=True)
    if r.returncode == 0: return []
    return [int(m.group(1)) for m in re.finditer(r'%s:(\d+):\d+: error' % re.escape(os.path.basename(path)), r.stdout + r.stderr)] or [-1]

def main():
    repo = sys.argv[1]; outp = sys.argv[2]
    curp = os.path.join(os.path.dirname(outp), 'Current.lean')
    lean_dir = os.path.dirname(os.path.dirname(os.path.dirname(os.path.abspath(outp))))
    text, report = translate_crate(repo)
    lean_map, ident_map = ({}, {}) if '--repin' in sys.argv else detect_renames(text, outp)
    if lean_map:
        text = apply_renames(text, lean_map)
        for e in report['translated']: e['name'] = lean_map.get(e['name'], e['name'])
    report['renamed'] = ident_map
    if '--repin' in sys.argv:
        open(os.path.join(os.path.dirname(outp), PIN_NAME), 'w').write(text)
    old = open(outp).read() if os.path.exists(outp) else None
    fns_text, cur_text, cands = bridge_files(text, outp)
    report['bridged'] = []; report['changed_not_bridged'] = []
    if old != fns_text or (open(curp).read() if os.path.exists(curp) else None) != cur_text:
        os.makedirs(os.path.dirname(outp), exist_ok=True)
        open(outp, 'w').write(fns_text); open(curp, 'w').write(cur_text)
        if '--validate' in sys.argv:
            # a definition Lean rejects (a construct the translator mishandles) is dropped together with its dependents,
            # so that one unusual function cannot take the other generated definitions down with it
            exclude = set()
            for _ in range(6):
                bad = lean_rejects(outp)
                if not bad or bad == ['<unlocated>']: break
                exclude |= set(bad)
                text, report = translate_crate(repo, exclude)
                if lean_map:
                    text = apply_renames(text, lean_map)
                    for e in report['translated']: e['name'] = lean_map.get(e['name'], e['name'])
                report['renamed'] = ident_map
                fns_text, cur_text, cands = bridge_files(text, outp)
                open(outp, 'w').write(fns_text); open(curp, 'w').write(cur_text)
            report['rejected_by_lean'] = sorted(exclude)
            report['bridged'] = []; report['changed_not_bridged'] = []
            if cands:
                # which of the rewrites does Lean accept as behaviour-preserving?  (Fns.olean must be current first)
                import subprocess
                subprocess.run(['lake', 'build', 'Sucds.Gen.Fns', 'Sucds.Model.BridgeTac'], cwd=lean_dir, capture_output=True, text=True)
                errs = lean_errors(curp, lean_dir)
                if errs:
                    lines = cur_text.split('\n')
                    starts = [(i + 1, m.group(1)) for i, l in enumerate(lines) for m in [re.match(r'(?:def|theorem) (\S+?)(?:\.bridge)? ', l)] if m]
                    failed = set()
                    for ln in errs:
                        nm = None
                        for st, n in starts:
                            if st <= ln: nm = n
                        failed.add(nm)
                    if None in failed or -1 in errs: failed = set(cands)
                    # the rewrites Lean does not accept: their fresh text goes into Fns.lean (the equivalence proofs decide)
                    keep = [n for n in cands if n not in failed]
                    pin_path = os.path.join(os.path.dirname(outp), PIN_NAME)
                    pinned = dict((n, b) for k, n, b in split_blocks(open(pin_path).read()) if k == 'def')
                    for n in failed: pinned.pop(n, None)
                    tmp_pin = pin_path + '.tmp'
                    # rebuild with the reduced pinned set
                    save = open(pin_path).read()
                    try:
                        open(pin_path, 'w').write('\n\n'.join(pinned.values()))
                        fns_text, cur_text, cands2 = bridge_files(text, outp)
                    finally:
                        open(pin_path, 'w').write(save)
                    open(outp, 'w').write(fns_text); open(curp, 'w').write(cur_text)
                    subprocess.run(['lake', 'build', 'Sucds.Gen.Fns'], cwd=lean_dir, capture_output=True, text=True)
                    if cands2 and lean_errors(curp, lean_dir):
                        # give up on bridging altogether
                        fns_text, cur_text, cands2 = text, bridge_files(text, '/nonexistent/x')[1], []
                        open(outp, 'w').write(fns_text); open(curp, 'w').write(cur_text)
                    report['bridged'] = cands2; report['changed_not_bridged'] = sorted(set(cands) - set(cands2))
                else:
                    report['bridged'] = cands
    else:
        report['bridged'] = cands
    if '--report' in sys.argv:
        json.dump(report, open(sys.argv[sys.argv.index('--report') + 1], 'w'), indent=1)
    print('gen_fns: %d functions translated, %d not translated%s%s' % (len(report['translated']), len(report['untranslated']),
          (', parse errors: ' + '; '.join(report['parse_errors'])) if report['parse_errors'] else '',
          (', %d rewritten functions proved equal to the pinned translation (%s)' % (len(report['bridged']), ', '.join(report['bridged']))) if report.get('bridged') else ''))
    if '-v' in sys.argv:
        for k, v in sorted(report['untranslated'].items()): print('  untranslated %-50s %s' % (k, v))

if __name__ == '__main__':
    main()
