#!/usr/bin/env python3
"""Re-runs every kept seeded change against the current checks: applies seeded/<id>/patch.diff to /repo, runs the
quick check of the property it breaks, reverts. Prints one line per seed; exit 1 if some seed is no longer caught."""
import os, sys, json, subprocess, re, time
ROOT = os.path.dirname(os.path.dirname(os.path.abspath(__file__)))
def sh(cmd, cwd=None):
    r = subprocess.run(cmd, shell=True, cwd=cwd, capture_output=True, text=True); return r.returncode, r.stdout + r.stderr
only = sys.argv[1:]
rc, o = sh('git -C /repo status --porcelain --untracked-files=no'); assert o.strip() == '', '/repo not clean'
missed = []
for sid in sorted(os.listdir(os.path.join(ROOT, 'seeded'))):
    if only and not any(sid.startswith(x) for x in only): continue
    d = os.path.join(ROOT, 'seeded', sid)
    meta = json.load(open(os.path.join(d, 'meta.json')))
    prop = meta['breaks_property']
    rc, o = sh('git -C /repo apply %s' % os.path.join(d, 'patch.diff')); assert rc == 0, (sid, o)
    try:
        t0 = time.time()
        rc, o = sh('python3 tools/check.py %s --tier quick' % prop, cwd=ROOT)
        lines = [l for l in o.splitlines() if l.startswith('VIOLATION')]
        concrete = any('no-failing-input-found' not in l for l in lines)
        print('%-8s %s exit=%d %s (%ds)' % (sid, prop, rc, 'caught with a replay' if concrete else ('caught, no-failing-input-found' if lines else 'MISSED'), time.time() - t0), flush=True)
        if rc != 1: missed.append(sid)
        meta.setdefault('regression_runs', []).append({'at': time.strftime('%Y-%m-%d %H:%M'), 'exit': rc, 'concrete_replay': concrete})
        json.dump(meta, open(os.path.join(d, 'meta.json'), 'w'), indent=1)
    finally:
        sh('git -C /repo checkout -- . && git -C /repo clean -fdq src')
sys.exit(1 if missed else 0)
