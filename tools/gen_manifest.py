#!/usr/bin/env python3
"""Regenerates MANIFEST.json and tools/levels.json from the table below (one place to keep the claims honest)."""
import json, os
ROOT = os.path.dirname(os.path.dirname(os.path.abspath(__file__)))
props = [json.loads(l) for l in open(os.path.join(ROOT, 'properties.jsonl'))]

# properties whose FULL statement (Sucds/Props/Cxx.lean: Statement / holds) is proved
FULL = {
 'C01': 'Statement/holds: every bit list, every hint configuration, every configuration, every argument: build succeeds; access, rank1, rank0, select1, select0, num_bits/ones/zeros equal the list semantics (None exactly out of range); hints_irrelevant.',
 'C02': 'Statement/holds: every bit list, every index configuration, every configuration, every argument: select1, num_ones, access; select0 after enable_select0; rank1/rank0 after enable_rank.',
 'C07': 'Statement/holds: constructors valid; every mutation history (verdicts, refinement, rejected operations are no-ops); every read (get_bit, get_bits for every (pos,len), get_word64, rank/select, predecessor/successor, num_ones) for every argument and configuration; iteration; canonical equality.',
 'C08': 'Statement/holds: Good (round trip with exact consumption, size = bytes written, hence back-to-back reads) for every structure codec, every primitive and the Vec/Option wrappers, on all representable values; stream_roundtrip: any number of values written one after another are read back in order, consuming exactly the sum of their size_in_bytes(); stream_partial_read: reading the first m of them leaves the reader at the first byte of value m.',
 'C09': 'Statement/holds: every constructor (Err exactly for bad widths/misfits), every history of push_int/set_int/extend faithful at every point (len, width, get_int for EVERY index, iteration, canonical equality), verdict of every single operation, rejected operations are no-ops.',
 'C10': 'Statement/holds: Err exactly for max_levels outside 1..=64; otherwise no panic (asserts cannot fire), access lossless for every index, len, level count within 1..=min(L,64), positive widths summing to the bit length.',
 'C11': 'Statement/holds: access lossless for every index, len, exactly ceil(bitlen(max)/8) levels of 8 bits (1 for empty/all-zero input).',
 'C13': 'Statement/holds: every strict prefix of the encoding of a representable value fails to decode, for every structure codec; read_exact and write_all are schedule independent (short transfers, Interrupted, failure after any number of bytes); truncated_stream_fails: a stream of several values cut anywhere before its end makes one of the reads fail.',
 'C14': 'Statement/holds: every word, every k, every configuration, over constants/tables regenerated from src/broadword.rs.',
 'C18': 'Statement/holds: the array-level model of compute_opt_widths returns (no assertion firing) a valid split that is cost-optimal over ALL splits into at most L positive widths, for the cost function of the property.',
}
FULL.update({
 'C03': 'Statement/holds: every bit list (incl. no set bit), every configuration, every argument: from_bits succeeds; access, select1, counts; after enable_rank rank1, rank0, predecessor1, successor1 = the list semantics.',
 'C04': 'Statement/holds: every universe < 2^64, capacity >= 1, every push history: the built sequence answers select, delta, rank, predecessor, successor, iter(k) (then None forever), binsearch_range / binsearch (any valid index), len, universe for the accepted list; accepted_of_valid.',
 'C05': 'Statement/holds: three backings (backing_ok from C01/C02/C07), every non-empty sequence with representable alph_size: new, access, rank_range for every (a,b,v), rank, select; Err for the empty sequence.',
 'C06': 'Statement/holds: quantile = k-th element of the sorted slice (None otherwise), intersect = strictly ascending list of exactly the values in more than k non-empty ranges, None iff a range ends beyond n.',
 'C12': 'Statement/holds: Err for the empty slice; for every non-empty input with representable sum: from_slice succeeds (no overflow, every prefix sum accepted), access lossless for every index, len, sum, iteration with exact size hints.',
 'C16': 'Statement/holds: new(u,0) rejected; every push history: verdicts = greedy acceptance, build reads back exactly the accepted values with universe u; rejected_push_no_effect; extend_spec (stops at the first rejection, keeps earlier items).',
 'C17': 'Statement/holds: the six index iterators (list then None forever, exact size hints) from the access theorems; EliasFano::iter(k); unary iterator: next enumerates the set positions >= p then None forever, ANY sequence of skip1/skip0 follows the cursor semantics, exhaustion is permanent, the debug assertion cannot fire.',
})
FULL.update({
 'C15': 'Statement/holds: for every pair of configurations: builders produce the same value (Rank9Sel, DArray, EliasFano, SArray, DacsByte, DacsOpt, PSEF, WaveletMatrix) hence the same serialized bytes (bytes_*); one query corollary per property (c01..c17) from the cfg-free full statements; binsearch as a function of the stored list alone.',
 'C19': 'Statement/holds: every documented bound over Codec.size (= size_in_bytes): BitVector, CompactVector (exact), Rank9Sel (all hint configs), DArray (all index configs), EliasFano (with/without rank), SArray, PSEF, DacsByte, DacsOpt, WaveletMatrix<Rank9Sel>.',
})
PARTIAL = {
 'C03': 'Theorems so far: select1 through the Elias-Fano builder invariant (C04). The remaining queries are modelled and decided by the correspondence (proof of the Elias-Fano queries in progress).',
 'C04': 'Theorems so far: builder invariant for every history; select = x_k given the select1 answers of the high bits; unary-code counting lemmas; the DArray over the high bits is proved (C02). delta/rank/predecessor/successor/binsearch/iter are modelled and decided by the correspondence (proofs in progress).',
 'C05': 'Theorems so far (spec-level layers): range-mapping invariant, rank_range = number of occurrences. access/select and the glue to the concrete layers are modelled and decided by the correspondence (proofs in progress).',
 'C06': 'Theorems so far: the range-mapping lemmas shared with C05. quantile/intersect are modelled and decided by the correspondence against sort/set semantics.',
 'C12': 'Theorems so far: builder invariant for the prefix sums (C04/C16). access = delta is modelled and decided by the correspondence.',
 'C15': 'Theorems so far: configuration independence of the broadword primitives, Rank9Sel (all queries, from C01), BitVector scans; every full statement of C01/C02/C07/C09/C10/C11/C14/C18 is of the form "for all cfg, answer = cfg-free spec". All workloads are additionally executed in the four real builds and compared.',
 'C16': 'Theorems so far: new(u,0) rejected; for every (u, m>=1) and push history: verdicts = greedy acceptance, rejected pushes have no effect, select reads back the accepted values given the select1 answers of the high bits. build (DArray over the high bits) and extend are modelled and decided by the correspondence.',
 'C17': 'Theorems so far: the six index iterators generically (instantiated for BitVector, CompactVector, DacsByte, DacsOpt); the unary iterator (new at every start incl. len, next enumerates the set positions, skip1/skip0 from a skip-established cursor, exhaustion is permanent, the debug assertion cannot fire). The Elias-Fano iterator and the PSEF/WaveletMatrix instances are modelled and decided by the correspondence.',
 'C19': 'Theorems so far: BitVector size formula and bound; size of the Rank9 directory. The other bounds are evaluated on the real size_in_bytes() of worst-case families on every run.',
}
# properties whose statement is ALSO proved over the definitions generated from the Rust function bodies (tools/gen_fns.py):
# lean/Sucds/Props/CxxGen.lean (Statement / Statement_partial), from the equivalence proofs lean/Sucds/Proofs/Gen*.lean
GEN = {
 'C01': 'C01Gen.Statement (full): Rank9Sel::build_from_bits / from_bits + hint builders and access, rank1, rank0, select1, select0, num_* as generated from rank9sel.rs, rank9sel/inner.rs, for every bit list with length + 1534 < 2^64 and arguments < 2^64.',
 'C02': 'C02Gen.Statement (full): DArray::build_from_bits, select1/select0/rank1/rank0/access/num_* as generated from darray.rs, darray/inner.rs, for every bit list shorter than 2^63.',
 'C07': 'C07Gen.Statement (full): constructors, every mutation history (genRun), every read and scan of BitVector as generated from bit_vector.rs; bounds: final length + 1 < 2^64, reads len + 63 < 2^64.',
 'C09': 'C09Gen.Statement (full): CompactVector constructors (incl. from_slice), histories of push_int/set_int/extend, get_int/access/iter as generated from compact_vector.rs.',
 'C14': 'C14Gen.Statement (full): popcount, lsb, msb, select_in_word as generated from broadword.rs / intrinsics.rs, every word and k < 2^64, every configuration.',
 'C03': 'C03Gen.Statement (full): SArray::from_bits (+ enable_rank) and access, select1, counts, rank1, rank0, predecessor1, successor1 as generated from sarray.rs, incl. the no-set-bit case, for 2*len + 2 < 2^63.',
 'C04': 'C04Gen.Statement (full, plus arbitrary push/extend interleavings): EliasFanoBuilder::new + history + build + enable_rank, then select, delta, rank, predecessor, successor, iter(k), binsearch(_range), len, universe as generated from elias_fano.rs and elias_fano/iter.rs.',
 'C10': 'C10Gen.Statement (full): DacsOpt::from_slice (Err exactly for max_levels outside 1..=64), access for every index, len, level count and widths, iteration, as generated from dacs_opt.rs.',
 'C11': 'C11Gen.Statement (full): DacsByte::from_slice, access, len, num_levels, widths, iteration, as generated from dacs_byte.rs.',
 'C12': 'C12Gen.Statement (full): PrefixSummedEliasFano::from_slice (Err for the empty slice), access, len, sum, iteration, as generated from prefix_summed_elias_fano.rs.',
 'C16': 'C16Gen.Statement (full): EliasFanoBuilder::new/push/extend histories and the build() read-back, as generated from elias_fano.rs.',
 'C05': 'C05Gen.Statement (full, three backings): WaveletMatrix::new from a CompactVector, access, rank, rank_range, select, len, alph_size as generated from wavelet_matrix.rs (one translation per backing B).',
 'C06': 'C06Gen.Statement (full, three backings): quantile and intersect as generated from wavelet_matrix.rs (intersect_helper is recursive: translated with explicit fuel, termination proved).',
 'C15': 'C15Gen.Statement: for every pair of configurations the generated constructors return the same value (hence the same bytes) and every generated query returns the same answer, collected from the config_independent theorems of all CxxGen files.',
 'C17': 'C17Gen.Statement (full, nine clauses): every index iterator (BitVector, CompactVector, DacsByte, DacsOpt, PrefixSummedEliasFano, WaveletMatrix x 3), EliasFano::iter(k), unary next and skip sequences, as generated.',
 'C19': 'C19Gen.Statement (full, ten structures): every documented space bound for the value returned by the generated constructor, measured by the generated size_in_bytes expression.',
 'C18': 'C18Gen.Statement (full, every L >= 1): compute_opt_widths as generated from dacs_opt.rs returns, with no assertion firing / overflow / out-of-bounds / non-termination, a cost-optimal valid split.',
}
for _k in list(PARTIAL):
    if _k in FULL: del PARTIAL[_k]
levels = {}; checks = []
for p in props:
    pid = p['id']
    if pid == 'C20': continue
    full = pid in FULL
    cat = 'proof' if full else 'other'
    levels[pid] = cat
    text = ('Machine-checked proof in Lean 4 of the full property statement over the model (lean/Sucds/Props/%s.lean: `Statement`, `holds`), re-checked by `lake build` on every run against constants regenerated from /repo, axioms audited; the hand-written model is tied to /repo on every run by a differential correspondence check (same generated scripts through the real code in 2-4 build configurations and through the compiled Lean model; implementation vs model, implementation vs executable specification, model vs specification). ' % pid + FULL[pid]) if full else \
           ('Lean 4 theorems cover part of the statement (named in lean/Sucds/Props/%s.lean and listed in the evidence); the rest of the statement is decided by the checked correspondence: the executable Lean model and the real code run on the same generated scripts and are compared with each other and with the executable specification (the oracle), so a violation comes with a concrete replay. ' % pid + PARTIAL[pid])
    if pid in GEN:
        text += ' ALSO over the code as translated: ' + GEN[pid] + ' The generated definitions (lean/Sucds/Gen/Fns.lean) are regenerated from /repo on every run by tools/gen_fns.py and proved equal to the model functions (lean/Sucds/Proofs/Gen*.lean), so for these functions the tie is the translator, not testing; a rewritten function is accepted without re-proving only when Lean proves its fresh translation equal to the pinned one (lean/Sucds/Gen/Current.lean), and the text outside the translated bodies (derives, fields, impl headers, signatures, attributes, Cargo features) is compared with the pinned tree item by item (tools/gen_skeleton.py).'
    checks.append({
      'property_id': pid,
      'quick_cmd': 'python3 tools/check.py %s --tier quick' % pid,
      'thorough_cmd': 'python3 tools/check.py %s --tier thorough' % pid,
      'evidence_file': '/verif/evidence/%s.json' % pid,
      'replay_cmd_template': 'python3 tools/check.py %s --replay {path}' % pid,
      'engine': 'lean4-model+correspondence',
      'level_claimed': {'category': cat, 'text': text, 'design_ref': 'DESIGN.md §5 %s' % pid},
      'level_note': 'Trusted: Lean 4.33 kernel; axioms propext, Classical.choice, Quot.sound (+ bv_decide per-call axioms in word-level lemmas only); tools/gen_consts.py; the hand-written model is tied to /repo only by the correspondence run (differential testing, bounded by the generators: sizes up to 3*10^5 bits quick / 2*10^6 thorough); core intrinsics, std read_exact/write_all, Vec/Option semantics, overflow-check/debug-assert build semantics and rustc are modelled, not verified; builder arithmetic is in unbounded Nat (sizes < 2^57).',
      'technique': ('Lean 4 proof over definitions regenerated from the Rust function bodies on every run (translator tools/gen_fns.py) and proved equal to a hand-written executable model; + ' if pid in GEN else 'Lean 4 proof over a hand-written executable model; + ') + 'checked model/implementation correspondence (differential, 2-4 build configurations); everything outside translated bodies pinned item by item (skeleton)',
    })
m = {'version': 1,
 'setup_cmd': 'sh tools/setup.sh',
 'hooks': {'guard': 'sucds_verif', 'enable': 'no hooks are needed: every internal table is observable through serialize_into and the public accessors; the harness (/verif/harness) is an external crate with a path dependency on /repo', 'baseline_off_cmd': 'cd /repo && cargo test --workspace --no-fail-fast --offline', 'source_commits': [], 'add_only': True},
 'engines': [{'name': 'lean4-model+correspondence', 'path': '/verif/tools/check.py', 'serves_properties': [c['property_id'] for c in checks], 'kind_free_text': 'Lean 4 project /verif/lean (model, spec, theorems, compiled model driver) + Rust harness /verif/harness (real code, 4 build configurations) + orchestrator tools/check.py'}],
 'checks': checks,
 'notes': 'Repairs of genuine defects found on the pinned tree are the unguarded fix: commits listed in known_findings.json (fixed entries); their demonstrations are in findings/. Seeded changes used to test the checks are in seeded/.',
 'not_applicable': [{'property_id': 'C20', 'reason': "A statement about Rust's static semantics (which operations the compiler classifies as unsafe, auto-trait derivation, absence of data races for all client programs); no executable functional model expresses it - in a pure functional model concurrent readers trivially get the sequential answers - and the tools that do decide it (rustc with forbid(unsafe_code), static Send+Sync assertions) are a different technique."}]}
json.dump(m, open(os.path.join(ROOT, 'MANIFEST.json'), 'w'), indent=1)
json.dump(levels, open(os.path.join(ROOT, 'tools', 'levels.json'), 'w'), indent=1)
print('manifest written:', sum(1 for v in levels.values() if v == 'proof'), 'proof,', sum(1 for v in levels.values() if v != 'proof'), 'partial')
