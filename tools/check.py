#!/usr/bin/env python3
"""Orchestrator: `tools/check.py <Cxx> [--tier quick|thorough] [--replay FILE]`.

Decides one property: (1) regenerates the constants the Lean model is stated over from /repo, (2) re-checks
the property's theorems (`lake build Sucds.Props.Cxx`) and audits their axioms, (3) rebuilds the harness
against /repo's working tree, (4) runs the correspondence: the same generated scripts through the real
code and through the Lean model + specification, compared three ways. Exit 0 = held on everything
explored; exit 1 + `VIOLATION property=<id> replay=<path>` otherwise."""
import sys, os, json, time, subprocess, hashlib, re, random, fcntl, shutil, argparse

ROOT = os.path.dirname(os.path.dirname(os.path.abspath(__file__)))
sys.path.insert(0, os.path.join(ROOT, 'tools'))
import gens

REPO = os.environ.get('SUCDS_REPO', '/repo')
BUILD = os.path.join(ROOT, '.build')
LEAN = os.path.join(ROOT, 'lean')
DRIVER = os.path.join(LEAN, '.lake', 'build', 'bin', 'sucds_model')
ALLOWED_AXIOMS = {'propext', 'Classical.choice', 'Quot.sound'}
# per-call axioms of bv_decide are accepted only for the word-level lemmas listed in DESIGN §7
BV_DECIDE_OK = re.compile(r'^Sucds\.[A-Za-z0-9_.]+\._native\.bv_decide\.ax_[0-9_]+$')

CONFIGS = {  # name -> (cargo args, checked, intrinsics)
    'debug': ([], 1, 0),
    'debug-intr': (['--features', 'intrinsics'], 1, 1),
    'release': (['--release'], 0, 0),
    'release-intr': (['--release', '--features', 'intrinsics'], 0, 1),
}
QUICK_CONFIGS = ['debug', 'release-intr']
ALL_CONFIGS = ['debug', 'debug-intr', 'release', 'release-intr']

ENV = dict(os.environ, CARGO_NET_OFFLINE='true', CARGO_TERM_COLOR='never')

def log(*a):
    print('[check]', *a, file=sys.stderr, flush=True)

class Lock:
    def __init__(self, name):
        os.makedirs(os.path.join(BUILD, 'locks'), exist_ok=True)
        self.path = os.path.join(BUILD, 'locks', name)
    def __enter__(self):
        self.f = open(self.path, 'w'); fcntl.flock(self.f, fcntl.LOCK_EX); return self
    def __exit__(self, *a):
        fcntl.flock(self.f, fcntl.LOCK_UN); self.f.close()

# ------------------------------------------------------------------------------------------------
# Lean side

def gen_consts():
    """the two translators: constants/tables and the structure codecs (field orders, types, size_in_bytes)"""
    msgs = []; ok = True; failed = []
    for tool, name in (('gen_consts.py', 'Consts.lean'), ('gen_codecs.py', 'Codecs.lean'), ('gen_fns.py', 'Fns.lean')):
        out = os.path.join(LEAN, 'Sucds', 'Gen', name)
        extra = ['--report', os.path.join(BUILD, 'gen_fns_report.json'), '--validate'] if tool == 'gen_fns.py' else []
        os.makedirs(BUILD, exist_ok=True)
        r = subprocess.run([sys.executable, os.path.join(ROOT, 'tools', tool), REPO, out] + extra, capture_output=True, text=True)
        ok = ok and r.returncode == 0; msgs.append((r.stdout + r.stderr).strip())
        if r.returncode != 0:
            failed.append(tool)
            # a refused tree leaves the previous output in place, which may stem from another tree: fall back to the
            # translation of the pinned tree so that the model (and the driver built from it) never depends on history
            pin = os.path.join(LEAN, 'Sucds', 'Gen', name.replace('.lean', 'Pinned.txt'))
            if os.path.exists(pin) and name != 'Fns.lean':
                cur = open(out).read() if os.path.exists(out) else ''
                if cur != open(pin).read(): open(out, 'w').write(open(pin).read())
    # the text outside the translated function bodies (derives, fields, impl headers, signatures, attributes, skipped bodies)
    try:
        sk = os.path.join(BUILD, 'skeleton_changes.json')
        if os.path.exists(sk): os.remove(sk)
        r = subprocess.run([sys.executable, os.path.join(ROOT, 'tools', 'gen_skeleton.py'), REPO, os.path.join(BUILD, 'gen_fns_report.json'), '--out', sk], capture_output=True, text=True)
        msgs.append((r.stdout + r.stderr).strip()[-400:])
        if r.returncode not in (0, 3): json.dump({'(skeleton tool failed)': {'added': [(r.stdout + r.stderr)[-300:]], 'removed': [], 'n_added': 1, 'n_removed': 0}}, open(sk, 'w'))
    except Exception as e:
        msgs.append('gen_skeleton: %s' % e)
    return ok, '; '.join(msgs), failed

def skeleton_obligation(prop, mods):
    """differences between the current and the pinned skeleton in the files that concern the property"""
    try: changes = json.load(open(os.path.join(BUILD, 'skeleton_changes.json')))
    except Exception: return []
    if not changes: return []
    rep = json.load(open(os.path.join(BUILD, 'gen_fns_report.json')))
    anchors = {}
    for l in open(os.path.join(ROOT, 'properties.jsonl')):
        if l.strip():
            j = json.loads(l); anchors[j['id']] = set(j.get('anchors', {}).get('files', []))
    owned = set(e['src'].rsplit(':', 1)[0] for e in rep['translated']) | set(f for fs in anchors.values() for f in fs)
    if prop in ('C08', 'C13'): mine = None
    else:
        mine = set(anchors.get(prop, ()))
        text = ''
        for m in mods:
            p_ = os.path.join(LEAN, *m.split('.')) + '.lean'
            if os.path.exists(p_): text += open(p_).read()
        for e in rep['translated']:
            if re.search(r'GenFn\.' + re.escape(e['name']) + r'(?![A-Za-z_0-9])', text): mine.add(e['src'].rsplit(':', 1)[0])
    out = []
    for f, c in changes.items():
        if mine is None or f in mine or f not in owned:
            out.append({'file': f, 'added': c['added'][:4], 'removed': c['removed'][:4]})
    return out

def theorems_of(module_file):
    """names of theorems declared in a Lean file, qualified by the enclosing namespaces"""
    names = []; ns = []; in_block = False
    for line in open(module_file):
        if in_block:
            if '-/' in line: in_block = False
            continue
        if '/-' in line and '-/' not in line.split('/-', 1)[1]:
            in_block = True; continue
        m = re.match(r'\s*namespace\s+(\S+)', line)
        if m: ns.append(m.group(1)); continue
        m = re.match(r'\s*end\s+(\S+)', line)
        if m and ns and ns[-1] == m.group(1): ns.pop(); continue
        m = re.match(r'\s*(?:@\[[^\]]*\]\s*)?(?:private\s+|protected\s+)?theorem\s+([^\s:({\[]+)', line)
        if m: names.append('.'.join(ns + [m.group(1)]))
    return names

def lean_imports(module, seen=None):
    """transitive closure of `Sucds.*` imports of a module (module names)"""
    if seen is None: seen = set()
    if module in seen: return seen
    seen.add(module)
    path = os.path.join(LEAN, *module.split('.')) + '.lean'
    if not os.path.exists(path): return seen
    for line in open(path):
        m = re.match(r'\s*import\s+(Sucds\.\S+)', line)
        if m: lean_imports(m.group(1), seen)
    return seen

FORBIDDEN = re.compile(r'\b(sorry|admit|native_decide|implemented_by|unsafe)\b|^\s*axiom\s|maxHeartbeats\s+0\b')

def scan_forbidden(modules):
    hits = []
    for mod in sorted(modules):
        path = os.path.join(LEAN, *mod.split('.')) + '.lean'
        if not os.path.exists(path): continue
        in_block = False
        for i, line in enumerate(open(path), 1):
            s = line
            if in_block:
                if '-/' in s: in_block = False
                continue
            if '/-' in s and '-/' not in s: in_block = True; continue
            s = re.sub(r'/-.*?-/', '', s); s = re.sub(r'--.*', '', s)
            if FORBIDDEN.search(s): hits.append('%s:%d: %s' % (mod, i, line.strip()))
    return hits

def rebuild_driver(res):
    """the model driver for a tree whose proofs or translation failed: from the freshly generated constants/codecs if they
    compile, else from the translation of the pinned tree (a consistent baseline: the expectations the driver computes are
    the property-level specification, and every difference between it and the implementation is then reported as such)"""
    rd = subprocess.run(['lake', 'build', 'sucds_model'], cwd=LEAN, capture_output=True, text=True, env=ENV)
    if rd.returncode == 0: return True
    for name in ('Consts', 'Codecs'):
        pin = os.path.join(LEAN, 'Sucds', 'Gen', name + 'Pinned.txt'); out = os.path.join(LEAN, 'Sucds', 'Gen', name + '.lean')
        if os.path.exists(pin) and open(pin).read() != (open(out).read() if os.path.exists(out) else ''): open(out, 'w').write(open(pin).read())
    rd = subprocess.run(['lake', 'build', 'sucds_model'], cwd=LEAN, capture_output=True, text=True, env=ENV)
    res.setdefault('notes', []).append('the model driver was built from the translation of the pinned tree (the current generated constants/codecs do not compile into the model)')
    return rd.returncode == 0

def lean_check(prop, tier='quick'):
    """build the property module and the driver, audit axioms. Returns dict(ok, failed, obligations, …)."""
    res = {'ok': True, 'errors': [], 'theorems': [], 'axioms': {}, 'obligations': 0, 'discharged': 0}
    with Lock('lake'):
        ok, msg, failed_tools = gen_consts()
        # the codec translator concerns the properties about serialized bytes and sizes; when it refuses a source, the
        # other properties keep the last generated Codecs.lean (their scripts still compare the real bytes with the model's)
        CODEC_PROPS = {'C08', 'C13', 'C15', 'C19'}
        if not ok and (failed_tools != ['gen_codecs.py'] or prop in CODEC_PROPS):
            # a source the translators do not understand: the theorems cannot be re-stated over it
            res['ok'] = False; res['errors'].append('translator: ' + msg); res['failed_modules'] = ['Sucds.Gen (translator)']
            # the model driver must still be the one of the current tree (its generated constants), or its answers mean nothing
            res['driver_fresh'] = rebuild_driver(res)
            res['obligations'] = 1; return res
        if not ok: res['notes'] = ['codec translator refused the current sources (not this property\'s obligation): ' + msg[-300:]]
        mod = 'Sucds.Props.%s' % prop
        # theorems about the definitions generated from the function bodies (tools/gen_fns.py), when the property has them
        gen_mod = mod + 'Gen'
        has_gen = os.path.exists(os.path.join(LEAN, 'Sucds', 'Props', prop + 'Gen.lean'))
        t0 = time.time()
        r = subprocess.run(['lake', 'build', mod, 'sucds_model', 'Sucds.Gen.Fns', 'Sucds.Gen.Current'] + ([gen_mod] if has_gen else []), cwd=LEAN, capture_output=True, text=True, env=ENV)
        res['lake_s'] = round(time.time() - t0, 1)
        mods = lean_imports(mod)
        if has_gen: mods = mods | lean_imports(gen_mod)
        try:
            rep = json.load(open(os.path.join(BUILD, 'gen_fns_report.json')))
            res['translator'] = {'functions_translated': len(rep['translated']), 'not_translated': len(rep['untranslated']), 'parse_errors': rep['parse_errors'],
                                 'rejected_by_lean': rep.get('rejected_by_lean', []),
                                 'rewritten_functions_proved_equal_to_the_pinned_translation': rep.get('bridged', []),
                                 'rewritten_functions_not_proved_equal': rep.get('changed_not_bridged', [])}
            if rep.get('bridged'):
                print('NOTE property=%s the translation of %s differs from the pinned one and is proved equal to it for every input (lean/Sucds/Gen/Current.lean): behaviour-preserving rewrite' % (prop, ', '.join(rep['bridged'])))
            # how many generated definitions are mentioned by a theorem of the equivalence / generated-level property files
            import glob
            text = ''.join(open(f).read() for f in glob.glob(os.path.join(LEAN, 'Sucds', 'Proofs', 'Gen*.lean')) + glob.glob(os.path.join(LEAN, 'Sucds', 'Proofs', 'C*GenAux.lean')) + glob.glob(os.path.join(LEAN, 'Sucds', 'Props', '*Gen.lean')))
            names = [t['name'] for t in rep['translated']]
            res['translator']['definitions_mentioned_by_theorems'] = sum(1 for n_ in names if re.search(r'(?<![A-Za-z_0-9])' + re.escape(n_) + r'(?![A-Za-z_0-9])', text))
        except Exception:
            pass
        skel = skeleton_obligation(prop, mods)
        try:
            pin_sk = json.load(open(os.path.join(ROOT, 'tools', 'pinned_skeleton.json')))['skeleton']
            res['skeleton'] = {'files': len(pin_sk), 'items_compared_with_the_pinned_tree': sum(len(v) for v in pin_sk.values()),
                               'differences_concerning_this_property': skel, 'renames_recognised': json.load(open(os.path.join(BUILD, 'gen_fns_report.json'))).get('renamed', {})}
        except Exception: pass
        proof_mods = [m for m in mods if m.startswith('Sucds.Props.') or m.startswith('Sucds.Proofs.')]
        all_thms = []
        for m in proof_mods:
            all_thms += theorems_of(os.path.join(LEAN, *m.split('.')) + '.lean')
        res['obligations'] = len(all_thms)
        if r.returncode != 0:
            res['ok'] = False
            res['driver_fresh'] = rebuild_driver(res)
            errs = [l for l in (r.stdout + r.stderr).splitlines() if 'error' in l.lower()][:20]
            res['errors'] += errs
            failed_mods = re.findall(r'✖ \[\d+/\d+\] Building (\S+)', r.stdout + r.stderr)
            res['failed_modules'] = failed_mods
            bad = 0
            for m in failed_mods:
                p = os.path.join(LEAN, *m.split('.')) + '.lean'
                if os.path.exists(p): bad += len(theorems_of(p))
            res['discharged'] = max(0, len(all_thms) - max(bad, 1))
            return res
        res['discharged'] = len(all_thms)
        if skel:
            # the theorems are about the pinned derives / fields / impl headers / signatures; this tree has others
            res['ok'] = False; res['skeleton_changes'] = skel
            res['errors'].append('text outside the translated function bodies differs from the pinned tree: ' + '; '.join('%s: +%s -%s' % (c['file'], [a[:120] for a in c['added'][:2]], [a[:120] for a in c['removed'][:2]]) for c in skel[:4]))
            res.setdefault('failed_modules', []).extend('crate skeleton (%s)' % c['file'] for c in skel)
            res['obligations'] += 1
            return res
        res['obligations'] += 1; res['discharged'] += 1
        hits = scan_forbidden(mods)
        if hits:
            res['ok'] = False; res['errors'] += ['forbidden construct: ' + h for h in hits]
        # axiom audit of the property theorems
        thms = theorems_of(os.path.join(LEAN, 'Sucds', 'Props', prop + '.lean'))
        if has_gen:
            gthms = theorems_of(os.path.join(LEAN, 'Sucds', 'Props', prop + 'Gen.lean'))
            res['generated_definition_theorems'] = gthms; thms = thms + gthms
        res['theorems'] = thms
        os.makedirs(os.path.join(LEAN, 'Audit'), exist_ok=True)
        audit = os.path.join(LEAN, 'Audit', prop + '.lean')
        with open(audit, 'w') as f:
            f.write('import %s\n' % mod)
            if has_gen: f.write('import %s\n' % gen_mod)
            for t in thms: f.write('#print axioms %s\n' % t)
        r = subprocess.run(['lake', 'env', 'lean', audit], cwd=LEAN, capture_output=True, text=True, env=ENV)
        out = r.stdout + r.stderr
        if r.returncode != 0:
            res['ok'] = False; res['errors'].append('axiom audit failed: ' + out[:500]); return res
        # evaluation of the generated definitions against the model for the groups without an equivalence proof yet
        GENTEST_PROPS = {'C02', 'C03', 'C04', 'C05', 'C06', 'C10', 'C11', 'C12'}
        gt = os.path.join(LEAN, 'Sucds', 'Test', 'GenVsModel.lean')
        if os.path.exists(gt) and (tier == 'thorough' or prop in GENTEST_PROPS):
            rr = subprocess.run(['lake', 'env', 'lean', gt], cwd=LEAN, capture_output=True, text=True, env=ENV)
            res['gen_vs_model_test'] = 'passed' if rr.returncode == 0 else 'FAILED'
            if rr.returncode != 0:
                res['ok'] = False; res['failed_modules'] = res.get('failed_modules', []) + ['Sucds.Test.GenVsModel']
                res['errors'].append('definitions generated from the current sources disagree with the model on a test input: ' + (rr.stdout + rr.stderr)[:400])
        if tier == 'thorough':
            # independent replay of every proof/property module of the closure by leanchecker
            from concurrent.futures import ThreadPoolExecutor
            def replay(m):
                rr = subprocess.run(['lake', 'env', 'leanchecker', m], cwd=LEAN, capture_output=True, text=True, env=ENV)
                return m, rr.returncode, (rr.stdout + rr.stderr)[-300:]
            with ThreadPoolExecutor(max_workers=8) as ex:
                results = list(ex.map(replay, sorted(proof_mods)))
            res['leanchecker'] = {'modules': len(results), 'failed': [m for m, rc, _ in results if rc != 0]}
            for m, rc, o in results:
                if rc != 0:
                    res['ok'] = False; res['errors'].append('leanchecker rejected %s: %s' % (m, o))
        for m in re.finditer(r"'([^']+)' (does not depend on any axioms|depends on axioms: \[([^\]]*)\])", out, re.S):
            axs = [a.strip() for a in (m.group(3) or '').replace('\n', ' ').split(',') if a.strip()]
            res['axioms'][m.group(1)] = axs
            for a in axs:
                if a not in ALLOWED_AXIOMS and not BV_DECIDE_OK.match(a):
                    res['ok'] = False; res['errors'].append('axiom outside the allow-list: %s in %s' % (a, m.group(1)))
    return res

# ------------------------------------------------------------------------------------------------
# harness

def harness_dir():
    """the harness crate, with its path dependency pointed at REPO"""
    src = os.path.join(ROOT, 'harness')
    if REPO == '/repo': return src
    dst = os.path.join(BUILD, 'harness-src-' + hashlib.sha1(REPO.encode()).hexdigest()[:8])
    os.makedirs(dst, exist_ok=True)
    shutil.copytree(os.path.join(src, 'src'), os.path.join(dst, 'src'), dirs_exist_ok=True)
    shutil.copytree(os.path.join(src, '.cargo'), os.path.join(dst, '.cargo'), dirs_exist_ok=True)
    shutil.copy(os.path.join(src, 'Cargo.lock'), dst)
    toml = open(os.path.join(src, 'Cargo.toml')).read().replace('path = "/repo"', 'path = "%s"' % REPO)
    open(os.path.join(dst, 'Cargo.toml'), 'w').write(toml)
    return dst

def build_harness(cfgs):
    hd = harness_dir()
    procs = {}
    tag = hashlib.sha1(REPO.encode()).hexdigest()[:8] if REPO != '/repo' else 'repo'
    bins = {}
    locks = []
    for c in cfgs:
        lk = Lock('cargo-%s-%s' % (tag, c)); lk.__enter__(); locks.append(lk)
        td = os.path.join(BUILD, 'harness-target', tag, c)
        args = ['cargo', 'build', '--offline', '--quiet', '--manifest-path', os.path.join(hd, 'Cargo.toml'), '--target-dir', td] + CONFIGS[c][0]
        procs[c] = subprocess.Popen(args, stdout=subprocess.PIPE, stderr=subprocess.STDOUT, text=True, env=ENV, cwd=hd)
        bins[c] = os.path.join(td, 'release' if '--release' in CONFIGS[c][0] else 'debug', 'sucds-verif-harness')
    errs = {}
    for c, p in procs.items():
        out, _ = p.communicate()
        if p.returncode != 0: errs[c] = [l for l in out.splitlines() if l.startswith('error')][:10] or out.splitlines()[-10:]
    for lk in locks: lk.__exit__()
    for c in cfgs:
        if c in errs: continue
        r = subprocess.run([bins[c], '--config'], capture_output=True, text=True)
        want = 'checked=%d intrinsics=%d' % (CONFIGS[c][1], CONFIGS[c][2])
        if r.stdout.strip() != want: errs[c] = ['configuration mismatch: %s vs %s' % (r.stdout.strip(), want)]
    return bins, errs

BIG_STATS = {'requests': 0}
def big_search(prop, bins, lines, budget):
    """run self-checking `big` requests one at a time (release build first); return the first failing one"""
    deadline = time.time() + budget
    order = [c for c in ('release', 'release-intr', 'debug', 'debug-intr') if c in bins]
    for ci, c in enumerate(order[:2]):
        p = subprocess.Popen([bins[c]], stdin=subprocess.PIPE, stdout=subprocess.PIPE, text=True, env=dict(ENV, HARNESS_REQUEST_LIMIT_S='120'))
        try:
            for line in (lines if ci == 0 else lines[:10]):
                if time.time() > deadline: break
                p.stdin.write(line + '\n'); p.stdin.flush()
                ans = p.stdout.readline().strip()
                if not ans: break     # the process died on this request (abort / watchdog): not attributable here
                BIG_STATS['requests'] += 1
                why = gens.big_oracle(prop, ans)
                if why: return (c, line, ans, why)
        finally:
            try: p.stdin.close(); p.wait(timeout=5)
            except Exception: p.kill()
    return None

def write_script(path, cases):
    with open(path, 'w') as f:
        for c in cases:
            for l in c: f.write(l + '\n')

def run_impl(binary, cases, workdir, name, timeout_per_run=900):
    """run the cases through the real code; a crash / hang of the process is attributed to the case it
    happened in and the remaining cases are run again. Returns per-case answer lists."""
    answers = [None] * len(cases)
    todo = list(range(len(cases)))
    crashes = []
    rounds = 0
    while todo and rounds < 6:
        rounds += 1
        sp = os.path.join(workdir, '%s.r%d.script' % (name, rounds))
        write_script(sp, [cases[i] for i in todo])
        tp = os.path.join(workdir, '%s.r%d.impl' % (name, rounds))
        with open(sp) as fin, open(tp, 'w') as fout:
            try:
                r = subprocess.run([binary], stdin=fin, stdout=fout, stderr=subprocess.DEVNULL, timeout=timeout_per_run)
                rc = r.returncode
            except subprocess.TimeoutExpired:
                rc = 'timeout'
        lines = open(tp).read().split('\n')
        if lines and lines[-1] == '': lines.pop()
        k = 0; nxt = []
        for pos, i in enumerate(todo):
            n = len(cases[i])
            if k + n <= len(lines):
                answers[i] = lines[k:k + n]; k += n
            else:
                # the process died inside this case
                if rc == 97 and not os.environ.get('HARNESS_REQUEST_LIMIT_S'):
                    # the per-request watchdog fired: under load a legitimate request can be slow; run the case again alone with
                    # a six-fold limit before calling it non-termination
                    sp1 = os.path.join(workdir, '%s.r%d.retry%d.script' % (name, rounds, i)); write_script(sp1, [cases[i]])
                    try:
                        with open(sp1) as fin1:
                            r1 = subprocess.run([binary], stdin=fin1, capture_output=True, text=True, timeout=timeout_per_run, env=dict(os.environ, HARNESS_REQUEST_LIMIT_S='120'))
                        l1 = r1.stdout.split('\n')
                        if l1 and l1[-1] == '': l1.pop()
                        if r1.returncode == 0 and len(l1) == n:
                            answers[i] = l1; nxt = todo[pos + 1:]; break
                    except Exception: pass
                got = lines[k:]
                answers[i] = got + ['crash(%s)' % rc] + ['-'] * (n - len(got) - 1)
                crashes.append((i, rc))
                nxt = todo[pos + 1:]
                break
        todo = nxt
    for i in todo: answers[i] = ['-'] * len(cases[i])
    return answers, crashes

MODEL_JOBS = int(os.environ.get('VERIF_MODEL_JOBS', '6'))
def run_model(cfgname, cases, impl_answers, workdir, name):
    """the cases are independent (`case` resets the object table), so the model driver runs on balanced chunks in parallel"""
    n = min(MODEL_JOBS, len(cases))
    if n <= 1 or sum(len(c) for c in cases) < 400: return run_model_chunk(cfgname, cases, impl_answers, workdir, name)
    order = sorted(range(len(cases)), key=lambda i: -sum(len(l) for l in cases[i]))
    chunks = [[] for _ in range(n)]; load = [0] * n
    for i in order:
        j = load.index(min(load)); chunks[j].append(i); load[j] += sum(len(l) for l in cases[i]) + 50 * len(cases[i])
    from concurrent.futures import ThreadPoolExecutor
    def go(j):
        idx = sorted(chunks[j])
        return idx, run_model_chunk(cfgname, [cases[i] for i in idx], [impl_answers[i] for i in idx], workdir, '%s.k%d' % (name, j))
    out = [None] * len(cases)
    with ThreadPoolExecutor(n) as ex:
        for idx, rows in ex.map(go, range(n)):
            for i, r in zip(idx, rows): out[i] = r
    return out

def run_model_chunk(cfgname, cases, impl_answers, workdir, name):
    sp = os.path.join(workdir, name + '.model.script')
    ip = os.path.join(workdir, name + '.model.impl')
    write_script(sp, cases)
    with open(ip, 'w') as f:
        for a in impl_answers:
            for l in a: f.write(l + '\n')
    _, ck, intr = CONFIGS[cfgname]
    r = subprocess.run([DRIVER, str(ck), str(intr), sp, ip], capture_output=True, text=True, timeout=3600)
    if r.returncode != 0:
        raise RuntimeError('model driver failed: rc=%s %s' % (r.returncode, r.stderr[:500]))
    lines = r.stdout.split('\n')
    if lines and lines[-1] == '': lines.pop()
    out = []; k = 0
    for c in cases:
        rows = []
        for _ in c:
            parts = lines[k].split('\t') if k < len(lines) else ['?', '?', '?', '?']
            while len(parts) < 4: parts.append('?')
            rows.append(parts); k += 1
        out.append(rows)
    if k != len(lines): raise RuntimeError('model driver line count mismatch: %d vs %d' % (k, len(lines)))
    return out

# ------------------------------------------------------------------------------------------------
# comparison

class Finding:
    def __init__(self, kind, cfg, case_index, line_index, line, impl, model, spec, note=''):
        self.kind = kind          # 'property' (impl vs spec), 'tie' (impl vs model), 'machinery' (model vs spec), 'config'
        self.cfg = cfg; self.case_index = case_index; self.line_index = line_index
        self.line = line; self.impl = impl; self.model = model; self.spec = spec; self.note = note
    def as_dict(self):
        return {'kind': self.kind, 'config': self.cfg, 'case': self.case_index, 'line_no': self.line_index,
                'request': self.line[:300], 'implementation': self.impl[:300], 'model': self.model[:300], 'spec': self.spec[:300], 'note': self.note}

def compare(cfg, cases, impl, model):
    findings = []
    stats = {'lines': 0, 'spec_checked': 0, 'impl_none': 0, 'impl_err': 0, 'impl_panic': 0}
    for ci, c in enumerate(cases):
        lost = False      # a constructor/mutator panicked on the implementation side only: its object is gone there
        for li, req in enumerate(c):
            I = impl[ci][li]; M, S, IS, MS = model[ci][li][:4]
            stats['lines'] += 1
            if 'panic' in I and I != M and (req.startswith('new ') or req.startswith('m ')): lost = True
            if lost and I.startswith('SCRIPT-ERROR') and not M.startswith('SCRIPT-ERROR'):
                break     # a consequence of the panic already reported, not a defect of the script
            if I.startswith('none') or I == 'err': stats['impl_none' if I != 'err' else 'impl_err'] += 1
            if I == 'panic' or I.endswith(';panic'): stats['impl_panic'] += 1
            if M.startswith('SCRIPT-ERROR') or I.startswith('SCRIPT-ERROR'):
                findings.append(Finding('machinery', cfg, ci, li, req, I, M, S, 'script error')); continue
            if MS == 'BAD':
                findings.append(Finding('machinery', cfg, ci, li, req, I, M, S, 'model disagrees with specification'))
            if IS != '-': stats['spec_checked'] += 1
            if I.startswith('crash('):
                findings.append(Finding('property', cfg, ci, li, req, I, M, S, 'the implementation did not answer (abort or non-termination)')); break
            if IS == 'BAD' or (S != '-' and 'panic' in I and IS != 'ok'):
                findings.append(Finding('property', cfg, ci, li, req, I, M, S))
                if req.startswith('m ') and 'panic' in I: break     # the object is gone; what follows says nothing new
            elif I != M and I != '-':
                findings.append(Finding('tie', cfg, ci, li, req, I, M, S))
    return findings, stats

MAXU = 2**64 - 1
_NUM = re.compile(r'(?<![0-9a-fA-Fx:,.])(\d{20,})(?![0-9a-fA-F])')
def sanitize(case):
    """arguments are `usize`: a generator that produced a larger decimal is clamped (never hex words of bit literals)"""
    out = []
    for l in case:
        if l.startswith('case '): out.append(l); continue
        toks = l.split(' ')
        for i, t in enumerate(toks):
            if ':' in t and not t.startswith('s1:') and not t.startswith('s0:'): continue      # bit literal len:hexwords
            def clamp(m):
                v = int(m.group(0)); return str(min(v, MAXU))
            toks[i] = re.sub(r'\d{20,}', clamp, t)
        out.append(' '.join(toks))
    return out

def shrink(case, fails):
    """delta-debug the request lines of a failing case (first line `case …` is kept)"""
    head, body = case[:1], case[1:]
    n = 2
    budget = 60
    while len(body) >= 2 and budget > 0:
        chunk = max(1, len(body) // n)
        reduced = False
        for i in range(0, len(body), chunk):
            cand = body[:i] + body[i + chunk:]
            budget -= 1
            if cand and fails(head + cand):
                body = cand; n = max(n - 1, 2); reduced = True; break
            if budget <= 0: break
        if not reduced:
            if chunk == 1: break
            n = min(len(body), n * 2)
    return head + body

# ------------------------------------------------------------------------------------------------

TRUSTED = [
    'Lean 4.33.0 kernel (lake build re-checks every theorem against the regenerated constants)',
    'axioms: propext, Classical.choice, Quot.sound; bv_decide per-call axioms only in the word-level lemmas (DESIGN §7)',
    'tools/gen_consts.py (constants/tables) and tools/gen_codecs.py (field orders, field types, size_in_bytes of every Serializable impl): translators whose output the theorems are stated over; the rest of the model is hand-written and tied to /repo by this correspondence run',
    'modelled, not verified: core intrinsics (count_ones, trailing_zeros, leading_zeros), std read_exact/write_all, Vec/slice/Option semantics, overflow-check and debug-assert build semantics, rustc/LLVM',
]

NONTRIVIAL_RULE = {
    'default': 'a case is non-trivial when at least 5 of its answers were checked against the specification and it contains a Some/Ok and (where applicable) a None/Err answer; distinct = distinct request text',
}

def case_nontrivial(case, impl, model):
    checked = sum(1 for r in model if r[2] != '-')
    return checked >= 5

def main():
    ap = argparse.ArgumentParser()
    ap.add_argument('prop')
    ap.add_argument('--tier', default=os.environ.get('VERIF_TIER', 'quick'))
    ap.add_argument('--replay')
    ap.add_argument('--no-lean', action='store_true', help='skip the proof re-check (debugging only)')
    ap.add_argument('--configs')
    args = ap.parse_args()
    prop = args.prop; tier = args.tier if args.tier in ('quick', 'thorough') else 'quick'
    seed = int(os.environ.get('VERIF_SEED', '20260929'))
    t0 = time.time()
    work = os.path.join(BUILD, 'run', '%s-%s-%d' % (prop, tier, os.getpid()))
    os.makedirs(work, exist_ok=True)
    replay_dir = os.path.join(ROOT, 'evidence', 'replays'); os.makedirs(replay_dir, exist_ok=True)
    if not args.replay:
        for fn in os.listdir(replay_dir):      # replays of earlier runs of this check are stale
            if fn.startswith('%s-%s-' % (prop, tier)): os.remove(os.path.join(replay_dir, fn))

    known = json.load(open(os.path.join(ROOT, 'known_findings.json'))) if os.path.exists(os.path.join(ROOT, 'known_findings.json')) else {'known': [], 'fixed': []}

    if args.replay:
        rp = json.load(open(args.replay))
        cases = [rp['case']]; cfgs = [rp.get('config', 'debug')] if rp.get('config') in CONFIGS else ['debug']
        bins, errs = build_harness(cfgs)
        if errs: print('harness build failed:', errs); return 2
        subprocess.run(['lake', 'build', 'sucds_model'], cwd=LEAN, capture_output=True, env=ENV)
        if any(l.startswith(('big ', 'bigq ')) for l in cases[0]):
            for c in cfgs:
                impl, _ = run_impl(bins[c], cases, work, 'replay-' + c)
                print('config', c)
                for req, I in zip(cases[0], impl[0]):
                    if req.startswith(('big ', 'bigq ')): print('  %s\n      impl : %s\n      fails: %s' % (req, I, gens.big_oracle(prop, I)))
            return 0
        for c in cfgs:
            impl, _ = run_impl(bins[c], cases, work, 'replay-' + c)
            model = run_model(c, cases, impl, work, 'replay-' + c)
            print('config', c)
            for req, I, row in zip(cases[0], impl[0], model[0]):
                print('  %s\n      impl : %s\n      model: %s\n      spec : %s   impl-vs-spec=%s' % (req[:160], I[:160], row[0][:160], row[1][:160], row[2]))
        return 0

    # 1–3: proofs
    if args.no_lean:
        lean = {'ok': True, 'errors': [], 'theorems': [], 'axioms': {}, 'obligations': 1, 'discharged': 1, 'skipped': True}
        subprocess.run(['lake', 'build', 'sucds_model'], cwd=LEAN, capture_output=True, env=ENV)
    else:
        lean = lean_check(prop, tier)
    log('lean:', 'ok' if lean['ok'] else 'FAILED', lean.get('errors', [])[:3], 'obligations', lean['obligations'])
    if not os.path.exists(DRIVER):
        print('model driver missing and could not be built: ' + '; '.join(lean['errors'][:5])); return 2

    # 4: harness
    cfgs = args.configs.split(',') if args.configs else (ALL_CONFIGS if (tier == 'thorough' or prop in ('C14', 'C15')) else QUICK_CONFIGS)
    bins, errs = build_harness(cfgs)
    if errs:
        # the correspondence harness no longer compiles against the crate (a changed public signature, or the tree itself does
        # not compile): the correspondence cannot be run, so the property is no longer shown to hold for this tree
        print('harness build failed (the tree does not compile, or its public API changed):', json.dumps(errs)[:2000])
        p_ = os.path.join(replay_dir, '%s-%s-unproved.json' % (prop, tier))
        json.dump({'property': prop, 'kind': 'no-failing-input-found', 'no_longer_checks': [{'correspondence': 'the harness (/verif/harness) does not compile against the current tree', 'errors': errs}],
                   'lean_ok': lean['ok'], 'lean_errors': lean.get('errors', [])[:10],
                   'explanation': 'the model/implementation correspondence cannot be run against this tree; no input violating the property could be searched for'}, open(p_, 'w'), indent=1)
        print('VIOLATION property=%s replay=%s no-failing-input-found' % (prop, p_)); return 1

    # 5: correspondence
    rng = random.Random('%s/%d/%s' % (prop, seed, tier))
    cases = []
    corpus_dir = os.path.join(ROOT, 'corpus', prop)
    if os.path.isdir(corpus_dir):
        for fn in sorted(os.listdir(corpus_dir)):
            ls = [l.rstrip('\n') for l in open(os.path.join(corpus_dir, fn)) if l.strip() and not l.startswith('#')]
            if ls: cases.append(ls)
    ncorpus = len(cases)
    cases += gens.GENERATORS[prop](rng, tier)
    if tier == 'thorough' and prop not in ('C13', 'C14'):
        for _ in range(3): cases += gens.GENERATORS[prop](rng, tier)      # the generator state continues: new cases
    if prop == 'C07' and tier == 'thorough': cases += gens.gen_C07_exhaustive()
    cases = [sanitize(c) for c in cases]
    log('cases:', len(cases), 'lines:', sum(len(c) for c in cases))

    all_findings = []; stats_by_cfg = {}; impl_by_cfg = {}; model_by_cfg = {}
    def run_cfg(c):
        impl, crashes = run_impl(bins[c], cases, work, c)
        model = run_model(c, cases, impl, work, c)
        return c, impl, model
    from concurrent.futures import ThreadPoolExecutor
    with ThreadPoolExecutor(len(cfgs)) as ex:
        results = list(ex.map(run_cfg, cfgs))
    for c, impl, model in results:
        f, st = compare(c, cases, impl, model)
        all_findings += f; stats_by_cfg[c] = st; impl_by_cfg[c] = impl; model_by_cfg[c] = model
        log(c, st, 'findings:', len(f))
    # large values: self-checking requests answered by the implementation alone, sizes around 2^16, 2^20 and any
    # integer literal that is new in the sources (harness/src/big.rs; the model driver cannot evaluate values this large)
    big_regular = None
    if prop in gens.BIG_SEARCH_PROPS:
        bl = gens.big_search_lines(gens.new_literals(REPO), prop)
        big_regular = big_search(prop, bins, bl[:24] if (tier == 'quick' and prop in ('C08', 'C13')) else bl, 90 if tier == 'quick' else 900)
        log('large-value requests:', BIG_STATS['requests'], 'failing:', big_regular[1:] if big_regular else None)
    driver_fresh = lean.get('driver_fresh', True)
    if not driver_fresh:
        # the model driver could not be rebuilt for the current tree (a generated constant no longer compiles): its answers and
        # the expectations it computes belong to an earlier tree, so a disagreement with it is a broken tie, not a failing input
        log('model driver is stale (not rebuildable for this tree): disagreements count as a broken correspondence only')
        for f in all_findings:
            if f.kind in ('property', 'machinery'): f.kind = 'tie'
    # configuration independence (C15 and, as a by-product, everywhere): transcripts must be identical
    base = cfgs[0]
    for c in cfgs[1:]:
        for ci in range(len(cases)):
            for li in range(len(cases[ci])):
                a, b = impl_by_cfg[base][ci][li], impl_by_cfg[c][ci][li]
                if cases[ci][li].startswith('sem '): continue      # the language operations themselves differ by build (that is what `Cfg` models)
                if a != b:
                    all_findings.append(Finding('config', '%s vs %s' % (base, c), ci, li, cases[ci][li], a + ' | ' + b, model_by_cfg[base][ci][li][0], model_by_cfg[base][ci][li][1]))
                    break

    # known (recorded, unrepaired) findings: matched by property + request pattern + implementation answer pattern;
    # a matching finding is reported as KNOWN-FINDING and is not a violation; anything else still is
    known_hits = {}
    def is_known(f):
        for i, k in enumerate(known.get('known', [])):
            if k.get('property') != prop: continue
            if re.search(k.get('request_regex', '$^'), f.line) and re.search(k.get('implementation_regex', '.*'), f.impl):
                known_hits[i] = k; return True
        return False
    all_findings = [f for f in all_findings if not (f.kind in ('property', 'config') and is_known(f))]
    machinery = [f for f in all_findings if f.kind == 'machinery']
    prop_f = [f for f in all_findings if f.kind == 'property' or (f.kind == 'config' and prop == 'C15')]
    tie_f = [f for f in all_findings if f.kind == 'tie' or (f.kind == 'config' and prop != 'C15')]

    violations = []     # (replay path, suffix)
    def write_replay(tag, payload):
        p = os.path.join(replay_dir, '%s-%s-%s.json' % (prop, tier, tag))
        json.dump(payload, open(p, 'w'), indent=1)
        return p

    def fails_property(cfg):
        def f(case):
            impl, _ = run_impl(bins[cfg], [case], work, 'shrink')
            model = run_model(cfg, [case], impl, work, 'shrink')
            fs, _ = compare(cfg, [case], impl, model)
            return any(x.kind == 'property' for x in fs)
        return f

    def big_replay(found, tag):
        c, line, ans, why = found
        return write_replay(tag, {'property': prop, 'kind': 'implementation-vs-specification', 'config': c, 'seed': seed,
                                  'oracle': 'self-checking request answered by the implementation alone (harness/src/big.rs); the property clause is decided from the fields of the answer',
                                  'finding': {'request': line, 'implementation': ans, 'fails': why}, 'case': ['case big', line],
                                  'how_to_replay': 'tools/check.py %s --replay <this file>' % prop,
                                  'broken': {'lean_errors': lean['errors'][:10], 'tie': [x.as_dict() for x in tie_f[:5]]}})
    if big_regular:
        violations.append((big_replay(big_regular, 'violation-large-value'), ''))
    if prop_f:
        # one replay per distinct failing request kind (first few), shrunk
        seen = set()
        for f in prop_f:
            t = f.line.split(' ')
            key = (' '.join([t[0]] + t[2:3]) if t[0] in ('q', 'm', 'it', 'new') else t[0]) if f.kind == 'property' else 'config'
            if key in seen or len(seen) >= 8: continue
            seen.add(key)
            case = cases[f.case_index]
            cfgname = f.cfg if f.cfg in CONFIGS else cfgs[0]
            if f.kind == 'property' and len(case) <= 400:
                try: case = shrink(case, fails_property(cfgname))
                except Exception as e: log('shrink failed', e)
            p = write_replay('violation-%d' % len(seen), {'property': prop, 'kind': 'implementation-vs-specification' if f.kind == 'property' else 'configuration-dependence', 'config': cfgname, 'seed': seed, 'finding': f.as_dict(), 'case': case,
                              'how_to_replay': 'tools/check.py %s --replay <this file>' % prop})
            violations.append((p, ''))
    elif (tie_f or not lean['ok']) and not big_regular:
        # correspondence or proof obligation broke without a failing input in this run: search harder
        log('tie/proof broken; searching for a failing input with the thorough generators in all configurations')
        found = None
        try:
            bins2, errs2 = build_harness(ALL_CONFIGS)
            if not errs2 and driver_fresh:
                rng2 = random.Random('%s/%d/search' % (prop, seed))
                cases2 = gens.GENERATORS[prop](rng2, 'thorough')
                deadline = time.time() + (240 if tier == 'quick' else 1500)
                for c in ALL_CONFIGS:
                    if time.time() > deadline: break
                    impl2, _ = run_impl(bins2[c], cases2, work, 'search-' + c)
                    model2 = run_model(c, cases2, impl2, work, 'search-' + c)
                    f2, _ = compare(c, cases2, impl2, model2)
                    pf = [x for x in f2 if x.kind == 'property']
                    if pf:
                        case = cases2[pf[0].case_index]
                        if len(case) <= 400:
                            bins.update(bins2); case = shrink(case, fails_property(c))
                        found = (c, pf[0], case); break
        except Exception as e:
            log('search failed:', e)
        big_found = None
        if not found and prop in gens.BIG_SEARCH_PROPS:
            # literal-directed search on large values, answered by the implementation alone (harness/src/big.rs):
            # sizes around the integer literals that are new in the sources, and around 2^16 and 2^20
            try:
                lits = gens.new_literals(REPO)
                log('searching large values; new literals in the sources:', lits[:12])
                big_found = big_search(prop, bins2, gens.big_search_lines(lits, prop), 240 if tier == 'quick' else 1200)
            except Exception as e:
                log('large-value search failed:', e)
        if big_found:
            violations.append((big_replay(big_found, 'violation-search'), ''))
        elif found:
            c, f, case = found
            p = write_replay('violation-search', {'property': prop, 'kind': 'implementation-vs-specification', 'config': c, 'seed': seed, 'finding': f.as_dict(), 'case': case,
                                                   'broken': {'lean_errors': lean['errors'][:10], 'tie': [x.as_dict() for x in tie_f[:5]]}})
            violations.append((p, ''))
        else:
            what = []
            if not lean['ok']: what.append({'proof_obligation': lean.get('failed_modules', []), 'errors': lean['errors'][:10]})
            if tie_f: what.append({'correspondence': [x.as_dict() for x in tie_f[:8]], 'cases': [cases[x.case_index][:60] for x in tie_f[:2]]})
            fm = lean.get('failed_modules', [])
            gen_only = bool(fm) and all(('.Gen' in m or m.endswith('Gen') or 'GenVsModel' in m) for m in fm) and not tie_f
            p = write_replay('unproved', {'property': prop, 'kind': 'no-failing-input-found', 'seed': seed, 'no_longer_checks': what,
                                          'only_generated_definition_obligations_failed': gen_only,
                                          'correspondence_on_this_run': {'lines_compared': sum(st['lines'] for st in stats_by_cfg.values()), 'implementation_vs_model_differences': len(tie_f)},
                                          'explanation': 'the theorem or the model/implementation correspondence named here no longer checks against the current tree; no input violating the property was found by the search'
                                          + (' (the failing modules are equivalence proofs between the definitions generated from the current function bodies and the model: the code was rewritten in a way the proofs do not follow; the model-level theorems still check and the differential run found no difference — a behaviour-preserving rewrite produces exactly this report)' if gen_only else '')})
            violations.append((p, ' no-failing-input-found'))

    # evidence
    nontrivial = set(); evaluations = 0
    for ci, c in enumerate(cases):
        evaluations += 1
        if case_nontrivial(c, impl_by_cfg[base][ci], model_by_cfg[base][ci]): nontrivial.add(hashlib.sha1('\n'.join(c[1:]).encode()).hexdigest())
    sample_cases = []
    for ci in ([0, len(cases) // 2] if cases else []):
        sample_cases.append([{'request': r[:200], 'implementation': i[:120], 'model': m[0][:120], 'spec': m[1][:120]} for r, i, m in list(zip(cases[ci], impl_by_cfg[base][ci], model_by_cfg[base][ci]))[:8]])
    full_proof = lean['ok'] and not lean.get('skipped')
    ev = {
        'property_id': prop, 'tier': tier, 'seed': seed,
        'level': LEVELS.get(prop, 'proof'),
        'coverage': {
            'obligations': max(1, lean['obligations']), 'discharged': max(1, lean['discharged']) if lean['ok'] else lean['discharged'],
            'checker_cmd': 'cd lean && lake build Sucds.Props.%s && lake env lean Audit/%s.lean   (from tools/check.py %s)' % (prop, prop, prop),
            'trusted_base': TRUSTED,
            'property_theorems': lean['theorems'], 'axioms_by_theorem': lean['axioms'],
            'evaluations': evaluations, 'distinct_nontrivial': len(nontrivial), 'rule': NONTRIVIAL_RULE['default'],
            'samples': sample_cases,
            'programs': evaluations, 'disagreements_checked': len(all_findings),
            'traces_validated_against_impl': sum(st['lines'] for st in stats_by_cfg.values()),
            'configurations': cfgs, 'stats_by_configuration': stats_by_cfg, 'corpus_cases': ncorpus,
            'leanchecker': lean.get('leanchecker'),
            'large_value_self_checking_requests': BIG_STATS['requests'] if prop in gens.BIG_SEARCH_PROPS else None,
            'function_translator': lean.get('translator'), 'text_outside_translated_bodies': lean.get('skeleton'), 'generated_vs_model_evaluation': lean.get('gen_vs_model_test'),
            'theorems_about_generated_definitions': lean.get('generated_definition_theorems', []),
            'explanation': 'theorems over the Lean model re-checked by lake build against constants regenerated from /repo; model tied to /repo by running %d generated cases through the real code (%s) and the model driver, comparing implementation vs model (tie), implementation vs specification (oracle) and model vs specification' % (evaluations, ', '.join(cfgs)),
            'exhaustive': False,
        },
        'assumptions': TRUSTED + ['values < 2^64, structure sizes < 2^57; builders\' arithmetic modelled in unbounded Nat (DESIGN §3.2)'],
        'wall_s': round(time.time() - t0, 1),
        'violations': len(violations),
    }
    os.makedirs(os.path.join(ROOT, 'evidence'), exist_ok=True)
    json.dump(ev, open(os.path.join(ROOT, 'evidence', prop + '.json'), 'w'), indent=1)

    if machinery:
        p = write_replay('machinery', {'property': prop, 'kind': 'machinery-error', 'findings': [f.as_dict() for f in machinery[:10]], 'cases': [cases[f.case_index][:80] for f in machinery[:2]]})
        if lean['ok']:
            print('MACHINERY-ERROR property=%s the model or driver disagrees with the specification although every theorem checks (a defect of the machinery, not a statement about the code): %s' % (prop, p))
        else:
            print('NOTE property=%s the model, stated over constants/tables regenerated from the current sources, no longer satisfies its specification (the proof obligations fail as well): %s' % (prop, p))
    for k in known_hits.values():
        print('KNOWN-FINDING: property=%s %s' % (prop, k.get('what', '')))
    for p, suffix in violations:
        print('VIOLATION property=%s replay=%s%s' % (prop, p, suffix))
    shutil.rmtree(work, ignore_errors=True)
    if violations: return 1
    if machinery and lean['ok']: return 3
    print('OK property=%s tier=%s cases=%d lines=%d configs=%s theorems=%d wall=%.0fs' % (prop, tier, len(cases), sum(len(c) for c in cases), ','.join(cfgs), len(lean['theorems']), time.time() - t0))
    return 0

LEVELS = {}
lv = os.path.join(ROOT, 'tools', 'levels.json')
if os.path.exists(lv): LEVELS = json.load(open(lv))

if __name__ == '__main__':
    sys.exit(main())
