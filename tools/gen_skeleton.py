#!/usr/bin/env python3
"""Everything of /repo/src that is *not* the body of a function the function translator translates, item by item.

`tools/gen_fns.py` ties the bodies of the functions it translates to the theorems; the constants are tied by
`gen_consts.py`, the serialization code by `gen_codecs.py`. What none of them sees is the rest of the text: derives,
struct fields and their types, `impl` headers (a hand-written `impl PartialEq` in place of a derive), function
signatures, attributes such as `#[cfg(..)]`, macro definitions and invocations, items in files the translator does not
read, and the bodies of the few functions it skips. This tool lists that rest as a multiset of canonical item strings
per file ("skeleton") and compares it with the skeleton of the pinned tree (`tools/pinned_skeleton.json`).

  gen_skeleton.py <repo> <gen_fns report.json> [--pin] [--out changes.json]

Tolerated without an obligation: an added inherent or free function whose name is an identifier that occurs nowhere in the
pinned sources and is not a method of a std trait the crate's types implement (no existing code can reach it without its
own text changing, and it cannot take precedence over a trait method for the crate's clients). Every other difference is
reported, by file; `tools/check.py` turns it into a broken obligation of the properties that file concerns."""
import sys, os, json, re
sys.path.insert(0, os.path.dirname(os.path.abspath(__file__)))
import rustparse

PIN = os.path.join(os.path.dirname(os.path.abspath(__file__)), 'pinned_skeleton.json')
# methods of the std traits the crate's types implement (or get by blanket impls): an inherent method of such a name would take
# precedence in method-call syntax for the crate's clients
STD_METHODS = set('''clone clone_from eq ne default fmt into_iter extend extend_one extend_reserve from_iter to_owned clone_into into from try_into
try_from borrow borrow_mut as_ref as_mut type_id to_string next size_hint count last advance_by nth step_by chain zip intersperse map for_each
filter filter_map enumerate peekable skip_while take_while map_while skip take scan flat_map flatten fuse inspect by_ref collect partition
try_fold try_for_each fold reduce try_reduce all any find find_map try_find position rposition max min max_by_key max_by min_by_key min_by rev
unzip copied cloned cycle sum product cmp partial_cmp lt le gt ge is_sorted next_back nth_back rfold rfind len is_empty hash'''.split())
PRIM = {'u8', 'u16', 'u32', 'u128', 'i8', 'i16', 'i32', 'i64', 'i128', 'isize', 'f32', 'f64', 'char', 'bool', 'str'}
DROP_ATTRS = ('inline', 'allow', 'must_use', 'doc', 'deprecated', 'warn', 'deny(missing_docs', 'rustfmt')

def text(toks):
    out = []
    for t in toks:
        v = t.val if t.val is not None else ''
        if t.kind == 'str': v = json.dumps(v)
        elif t.kind == 'char': v = "'%s'" % v
        if getattr(t, 'suffix', None): v = '%s%s' % (v, t.suffix)
        out.append(str(v))
    return ' '.join(out)

def match_close(toks, j):
    o = toks[j].val; c = {'{': '}', '(': ')', '[': ']'}[o]; d = 0
    for k in range(j, len(toks)):
        if toks[k].kind == 'punct':
            if toks[k].val == o: d += 1
            elif toks[k].val == c:
                d -= 1
                if d == 0: return k
    raise ValueError('unbalanced %s at line %s' % (o, toks[j].line))

def canon_attr(a):
    s = text(a)
    body = s[s.index('[') + 1:].strip()
    if body.startswith(DROP_ATTRS): return None
    m = re.match(r'derive \( (.*) \) \]$', body)
    if m:
        # `Debug` and `Hash` add a capability and cannot change what existing code computes
        ds = sorted(x.strip() for x in m.group(1).split(',') if x.strip() and x.strip() not in ('Debug', 'Hash'))
        return '#[derive(%s)]' % ','.join(ds) if ds else None
    return s.replace(' ', '')

def split_top(ws, seps):
    """split a list of token strings at separators that are outside every bracket"""
    out = [[]]; d = 0
    for w in ws:
        if w in ('(', '[', '<', '{'): d += 1
        elif w in (')', ']', '>', '}'): d -= 1
        elif w == '>>': d -= 2
        if d == 0 and w in seps: out.append([])
        else: out[-1].append(w)
    return [x for x in out if x]

def canon_generics(ws):
    """bounds written inline (`<T: A>`) and in a `where` clause are the same thing: move them all into one sorted clause"""
    ws = [w for w in ws]
    # split a '>>' that closes two levels into two tokens so that matching is uniform
    flat = []
    for w in ws: flat += ['>', '>'] if w == '>>' else [w]
    ws = flat
    gi = None
    for i, w in enumerate(ws):
        if w == '<' and i > 0 and (ws[i - 1] == 'impl' or (i > 1 and ws[i - 2] in ('fn', 'struct', 'trait', 'enum', 'type'))): gi = i; break
        if w in ('(', '{'): break
    preds = []; head = ws; gen_names = None
    if gi is not None:
        d = 0; gj = None
        for j in range(gi, len(ws)):
            if ws[j] == '<': d += 1
            elif ws[j] == '>':
                d -= 1
                if d == 0: gj = j; break
        if gj is None: return ' '.join(ws)
        names = []
        for prm in split_top(ws[gi + 1:gj], (',',)):
            if ':' in prm and prm[0] != 'const':
                k = prm.index(':'); names.append(' '.join(prm[:k]))
                for b in split_top(prm[k + 1:], ('+',)): preds.append((' '.join(prm[:k]), ' '.join(b)))
            else: names.append(' '.join(prm))
        gen_names = names
        head = ws[:gi] + ['<'] + [', '.join(names)] + ['>'] + ws[gj + 1:]
    # where clause (top level)
    d = 0; wi = None
    for i, w in enumerate(head):
        if w in ('(', '[', '<'): d += 1
        elif w in (')', ']', '>'): d -= 1
        elif w == 'where' and d == 0: wi = i; break
    if wi is not None:
        for pr in split_top(head[wi + 1:], (',',)):
            if ':' in pr:
                k = pr.index(':')
                for b in split_top(pr[k + 1:], ('+',)): preds.append((' '.join(pr[:k]), ' '.join(b)))
            else: preds.append((' '.join(pr), ''))
        head = head[:wi]
    txt = ' '.join(head)
    if preds: txt += ' where ' + ' , '.join('%s : %s' % p_ for p_ in sorted(set(preds)))
    return txt

def segment(toks, prefix, out, translated_lines, fnnames):
    i = 0; n = len(toks)
    while i < n:
        attrs = []
        while i < n and toks[i].kind == 'punct' and toks[i].val == '#':
            j = i + 1
            if toks[j].val == '!': j += 1
            k = match_close(toks, j); attrs.append(toks[i:k + 1]); i = k + 1
        if i >= n:
            for a in attrs:
                c = canon_attr(a)
                if c: out.append(prefix + c)
            break
        j = i; d = 0
        while j < n:
            t = toks[j]
            if t.kind == 'punct':
                if t.val in '([': d += 1
                elif t.val in ')]': d -= 1
                elif d == 0 and t.val in ('{', ';'): break
            j += 1
        header = toks[i:j]
        # visibility decides who may call an item, not what it computes
        if header and header[0].val == 'pub':
            if len(header) > 1 and header[1].val == '(': header = header[match_close(header, 1) + 1:]
            else: header = header[1:]
        kws = [t.val for t in header if t.kind in ('kw', 'keyword', 'ident') and t.val in ('fn', 'impl', 'trait', 'mod', 'struct', 'enum', 'union', 'macro_rules', 'const', 'static', 'use', 'type')]
        kw = kws[0] if kws else None
        if kw == 'const' and 'fn' in kws[:3]: kw = 'fn'
        cattrs = [c for c in (canon_attr(a) for a in attrs) if c]
        atxt = ''.join(c + ' ' for c in sorted(cattrs))
        htxt = text(header)
        htxt = re.sub(r', (?=[)\]>])', '', htxt)       # a trailing comma in a parameter or argument list
        if kw in ('fn', 'impl', 'struct', 'trait'):
            try: htxt = canon_generics(htxt.split(' '))
            except Exception: pass
        if j >= n or toks[j].val == ';':
            if kw == 'use': pass            # imports: a changed import either fails to compile or changes nothing that a body's text does not show
            else: out.append(prefix + atxt + htxt + ' ;')
            i = j + 1; continue
        k = match_close(toks, j)
        is_test = any(c.replace(' ', '') == '#[cfg(test)]' for c in cattrs)
        if is_test:
            pass
        elif kw in ('impl', 'trait', 'mod'):
            out.append(prefix + atxt + htxt + ' {')
            segment(toks[j + 1:k], prefix + atxt + htxt + ' :: ', out, translated_lines, fnnames)
        elif kw == 'fn':
            fi = [x for x, t in enumerate(header) if t.val == 'fn'][0]
            name = header[fi + 1].val
            fnnames.append((prefix, name))
            if header[fi].line in translated_lines:
                # the translation models every integer type as an unbounded-then-checked 64-bit value and spells casts out; the
                # primitive type names a body mentions (annotations, casts, suffixes, turbofish) stay part of the skeleton
                prim = [t.val for t in toks[j:k + 1] if t.kind == 'ident' and t.val in PRIM] + [t.suffix for t in toks[j:k + 1] if getattr(t, 'suffix', None) and t.suffix in PRIM]
                # attributes inside a body (`#[cfg(..)]` on a statement, a block, a match arm, …) decide what is compiled; the
                # translator models `feature = "intrinsics"` blocks only, so every attribute of a body stays in the skeleton
                inner = []; q = j
                while q < k:
                    if toks[q].kind == 'punct' and toks[q].val == '#' and toks[q + 1].val in ('[', '!'):
                        q2 = q + 1 + (1 if toks[q + 1].val == '!' else 0)
                        e_ = match_close(toks, q2); inner.append(text(toks[q:e_ + 1]).replace(' ', '')); q = e_ + 1
                    else: q += 1
                body = '{… %s}' % ' '.join(prim + inner) if (prim or inner) else '{…}'
            else: body = text(toks[j:k + 1])
            out.append(prefix + atxt + htxt + ' ' + body)
        else:
            out.append(prefix + atxt + htxt + ' ' + text(toks[j:k + 1]))
        i = k + 1
        if i < n and toks[i].val == ';': i += 1

def skeleton(repo, report):
    tl = {}
    for e in report.get('translated', []):
        f, l = e['src'].rsplit(':', 1); tl.setdefault(f, set()).add(int(l))
    sk = {}; names = {}
    for dp, _, fns in os.walk(os.path.join(repo, 'src')):
        for fn in sorted(fns):
            if not fn.endswith('.rs'): continue
            p = os.path.join(dp, fn); rel = os.path.relpath(p, repo)
            toks = [t for t in rustparse.lex(open(p).read()) if t.kind != 'eof']
            out = []; fnn = []
            segment(toks, '', out, tl.get(rel, set()), fnn)
            sk[rel] = sorted(out); names[rel] = fnn
    # the build description: features, dependencies, profiles, edition, a build script (they decide which code is compiled and how)
    man = []
    cp = os.path.join(repo, 'Cargo.toml')
    if os.path.exists(cp):
        sec = ''
        for l in open(cp):
            l = l.split('#', 1)[0].strip()
            if not l: continue
            if l.startswith('['): sec = l; continue
            if sec in ('[dependencies]', '[features]', '[lib]', '[build-dependencies]') or sec.startswith('[profile') or sec.startswith('[target') or sec.startswith('[dependencies.') \
               or (sec == '[package]' and l.split('=')[0].strip() in ('edition', 'build', 'links', 'autobins')):
                man.append('%s %s' % (sec, re.sub(r'\s+', ' ', l)))
    for extra in ('build.rs', '.cargo/config.toml', '.cargo/config', 'rust-toolchain', 'rust-toolchain.toml'):
        if os.path.exists(os.path.join(repo, extra)): man.append('file %s: %s' % (extra, re.sub(r'\s+', ' ', open(os.path.join(repo, extra)).read())[:2000]))
    sk['Cargo.toml'] = sorted(man); names['Cargo.toml'] = []
    return sk, names

def main():
    repo = sys.argv[1]; report = json.load(open(sys.argv[2]))
    sk, names = skeleton(repo, report)
    ren = report.get('renamed') or {}
    if ren and '--pin' not in sys.argv:
        # renames the function translator has recognised (fresh identifier, same type, same signature): compare under the old names
        sk = dict((f, sorted(' '.join(ren.get(w, w) for w in x.split(' ')) for x in items)) for f, items in sk.items())
    if '--pin' in sys.argv:
        idents = set()
        for dp, _, fns in os.walk(os.path.join(repo, 'src')):
            for fn in fns:
                if fn.endswith('.rs'): idents |= set(t.val for t in rustparse.lex(open(os.path.join(dp, fn)).read()) if t.kind == 'ident')
        json.dump({'skeleton': sk, 'fn_names': sorted(set(n for f in names.values() for _, n in f)), 'idents': sorted(idents)}, open(PIN, 'w'), indent=0)
        print('gen_skeleton: pinned %d files, %d items' % (len(sk), sum(len(v) for v in sk.values()))); return 0
    pin = json.load(open(PIN)); psk = pin['skeleton']; pnames = set(pin['fn_names']); pidents = set(pin.get('idents', []))
    changes = {}
    for f in sorted(set(sk) | set(psk)):
        cur = list(sk.get(f, [])); old = list(psk.get(f, []))
        added = list(cur)
        for x in old:
            if x in added: added.remove(x)
        removed = list(old)
        for x in cur:
            if x in removed: removed.remove(x)
        # an inherent `impl T {` header may be repeated or merged (methods move between blocks of the same type)
        inherent = lambda x: x.endswith(' {') and re.match(r'(?:#\[[^\]]*\] )*impl\b', x.split(' :: ')[-1]) and ' for ' not in x.split(' :: ')[-1]
        added = [x for x in added if not (inherent(x) and x in old)]
        removed = [x for x in removed if not (inherent(x) and x in cur)]
        real_added = []
        for x in added:
            # tolerated: a new free or inherent function with a name that is new in the crate
            m = re.search(r'(?:^|:: )(?:#\[[^\]]*\] )*(?:pub (?:\( [a-z :]+ \) )?)?(?:const )?fn (\w+)', x)
            head = x.split(' :: ')
            in_trait_impl = any(re.match(r'(?:#\[[^\]]*\] )*impl\b.*\bfor\b', h) for h in head[:-1]) or any(re.match(r'(?:#\[[^\]]*\] )*(?:pub )?trait\b', h) for h in head[:-1])
            if m and m.group(1) not in pnames and m.group(1) not in STD_METHODS and m.group(1) not in pidents and not in_trait_impl and x.rstrip().endswith('}'): continue
            real_added.append(x)
        if real_added or removed:
            changes[f] = {'added': [a[:400] for a in real_added[:12]], 'removed': [r[:400] for r in removed[:12]], 'n_added': len(real_added), 'n_removed': len(removed)}
    if '--out' in sys.argv: json.dump(changes, open(sys.argv[sys.argv.index('--out') + 1], 'w'), indent=1)
    if changes:
        print('gen_skeleton: the text outside the translated function bodies differs from the pinned tree in: ' + ', '.join('%s (+%d -%d)' % (f, c['n_added'], c['n_removed']) for f, c in changes.items()))
        return 3
    print('gen_skeleton: unchanged (%d files, %d items)' % (len(sk), sum(len(v) for v in sk.values()))); return 0

if __name__ == '__main__':
    sys.exit(main())
