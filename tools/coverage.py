#!/usr/bin/env python3
"""Optional tool (not a registered check): source coverage of /repo/src reached by the quick-tier scripts.
Builds the harness with `-C instrument-coverage` on the nightly toolchain (llvm-tools are installed with it), runs the
quick-tier scripts of every property through it and prints the llvm-cov report plus the uncovered lines.
Scratch output under /verif/.build/cov (removed first)."""
import sys, os, random, subprocess, shutil
ROOT = os.path.dirname(os.path.dirname(os.path.abspath(__file__)))
sys.path.insert(0, os.path.join(ROOT, 'tools'))
import gens, check
COV = os.path.join(ROOT, '.build', 'cov')
shutil.rmtree(COV, ignore_errors=True); os.makedirs(os.path.join(COV, 'prof'))
env = dict(os.environ, RUSTFLAGS='-C instrument-coverage', CARGO_NET_OFFLINE='true')
subprocess.run(['cargo', '+nightly', 'build', '--offline', '--quiet', '--manifest-path', os.path.join(ROOT, 'harness', 'Cargo.toml'),
                '--target-dir', os.path.join(COV, 'target')], check=True, env=env)
binp = os.path.join(COV, 'target', 'debug', 'sucds-verif-harness')
for prop in sorted(gens.GENERATORS):
    if prop in ('C14', 'C15'): continue
    rng = random.Random('%s/%d/%s' % (prop, 20260929, 'quick'))
    cases = []
    cd = os.path.join(ROOT, 'corpus', prop)
    if os.path.isdir(cd):
        for fn in sorted(os.listdir(cd)):
            ls = [l.rstrip('\n') for l in open(os.path.join(cd, fn)) if l.strip() and not l.startswith('#')]
            if ls: cases.append(ls)
    cases += gens.GENERATORS[prop](rng, 'quick')
    sp = os.path.join(COV, prop + '.script'); check.write_script(sp, [check.sanitize(c) for c in cases])
    with open(sp) as fin:
        subprocess.run([binp], stdin=fin, stdout=subprocess.DEVNULL, env=dict(os.environ, LLVM_PROFILE_FILE=os.path.join(COV, 'prof', prop + '.profraw')))
sysroot = subprocess.run(['rustc', '+nightly', '--print', 'sysroot'], capture_output=True, text=True).stdout.strip()
tools = os.path.join(sysroot, 'lib', 'rustlib', 'x86_64-unknown-linux-gnu', 'bin')
prof = os.path.join(COV, 'all.profdata')
subprocess.run([os.path.join(tools, 'llvm-profdata'), 'merge', '-sparse'] + [os.path.join(COV, 'prof', f) for f in os.listdir(os.path.join(COV, 'prof'))] + ['-o', prof], check=True)
ign = '--ignore-filename-regex=(registry|harness/src|rustc)'
subprocess.run([os.path.join(tools, 'llvm-cov'), 'report', binp, '-instr-profile=' + prof, ign])
r = subprocess.run([os.path.join(tools, 'llvm-cov'), 'show', binp, '-instr-profile=' + prof, ign, '--show-line-counts-or-regions'], capture_output=True, text=True)
print('\nuncovered lines:')
for l in r.stdout.splitlines():
    t = l.split('|')
    if len(t) >= 3 and t[1].strip() == '0' and t[2].strip() not in ('}', ''): print(l)
