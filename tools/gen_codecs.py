#!/usr/bin/env python3
"""Translator: the `Serializable` impls of the crate's structures → Lean codec definitions.

For every structure it reads, from the current Rust sources,
  * the struct's field list with types,
  * the order in which `serialize_into` writes the fields,
  * the order and the types with which `deserialize_from` reads them (and the struct literal it builds),
  * the `size_in_bytes` expression,
and writes `lean/Sucds/Gen/Codecs.lean`:
  * `X.codec : Codec X`       — `put` in the serialize order, `get` in the deserialize order (they must agree,
                                 otherwise the generated file contains a failing `orders_agree` theorem),
  * `X.sizeInBytes : X → Nat` — the `size_in_bytes` expression as written.
The theorems of C08/C13/C19 (round trip, exact consumption, prefixes fail, size = bytes written, space bounds) are
stated over these generated definitions and re-checked by `lake build` on every run. Fails loudly (exit 2) on
anything it does not understand."""
import re, sys, os

REPO = sys.argv[1] if len(sys.argv) > 1 else '/repo'
OUT = sys.argv[2] if len(sys.argv) > 2 else 'Codecs.lean'

# Rust struct → (source file, Lean structure, {rust field: lean field})
STRUCTS = [
    ('BitVector', 'src/bit_vectors/bit_vector.rs', 'BV', {'words': 'words', 'len': 'len'}),
    ('CompactVector', 'src/int_vectors/compact_vector.rs', 'CV', {'chunks': 'chunks', 'len': 'len', 'width': 'width'}),
    ('Rank9SelIndex', 'src/bit_vectors/rank9sel/inner.rs', 'R9Index',
     {'len': 'len', 'block_rank_pairs': 'pairs', 'select1_hints': 'sel1', 'select0_hints': 'sel0'}),
    ('Rank9Sel', 'src/bit_vectors/rank9sel.rs', 'R9', {'bv': 'bv', 'rs': 'rs'}),
    ('DArrayIndex', 'src/bit_vectors/darray/inner.rs', 'DAIndex',
     {'block_inventory': 'blockInv', 'subblock_inventory': 'subInv', 'overflow_positions': 'overflow',
      'num_positions': 'numPos', 'over_one': 'overOne'}),
    ('DArray', 'src/bit_vectors/darray.rs', 'DA', {'bv': 'bv', 's1': 's1', 's0': 's0', 'r9': 'r9'}),
    ('EliasFano', 'src/mii_sequences/elias_fano.rs', 'EF',
     {'high_bits': 'high', 'low_bits': 'low', 'low_len': 'lowLen', 'universe': 'univ'}),
    ('SArray', 'src/bit_vectors/sarray.rs', 'SA',
     {'ef': 'ef', 'num_bits': 'numBits', 'num_ones': 'numOnes', 'has_rank': 'hasRank'}),
    ('DacsByte', 'src/int_vectors/dacs_byte.rs', 'DacB', {'data': 'data', 'flags': 'flags'}),
    ('DacsOpt', 'src/int_vectors/dacs_opt.rs', 'DacO', {'data': 'data', 'flags': 'flags'}),
    ('PrefixSummedEliasFano', 'src/int_vectors/prefix_summed_elias_fano.rs', 'PS', {'ef': 'ef'}),
    ('WaveletMatrix', 'src/char_sequences/wavelet_matrix.rs', 'WM', {'layers': 'layers', 'alph_size': 'alphSize'}),
]
LEAN_OF = {r: l for r, _, l, _ in STRUCTS}

def die(msg):
    print('gen_codecs: ' + msg, file=sys.stderr); sys.exit(2)

def strip_comments(src):
    src = re.sub(r'//[^\n]*', '', src)
    return re.sub(r'/\*.*?\*/', '', src, flags=re.S)

def block_after(src, start):
    """text of the brace block that opens at or after `start`"""
    i = src.index('{', start); depth = 0
    for j in range(i, len(src)):
        if src[j] == '{': depth += 1
        elif src[j] == '}':
            depth -= 1
            if depth == 0: return src[i + 1:j], j
    die('unbalanced braces')

def type_codec(t, generic=None):
    """Lean codec expression for a Rust type"""
    t = t.replace(' ', '')
    prim = {'usize': 'Codec.u64', 'u64': 'Codec.u64', 'u16': 'Codec.u16', 'u8': 'Codec.u8', 'isize': 'Codec.i64',
            'i64': 'Codec.i64', 'bool': 'Codec.bool'}
    if t in prim: return prim[t]
    m = re.fullmatch(r'Vec<(.+)>', t)
    if m: return '(Codec.arr %s)' % type_codec(m.group(1), generic)
    m = re.fullmatch(r'Option<(.+)>', t)
    if m: return '(Codec.opt %s)' % type_codec(m.group(1), generic)
    if generic and t == generic[0]: return generic[1]
    if t in LEAN_OF: return '%s.codec' % LEAN_OF[t]
    die('type not understood: %r' % t)

def parse_struct(rust, path, lean, fmap):
    src = strip_comments(open(os.path.join(REPO, path)).read())
    m = re.search(r'pub struct %s(<\w+>)?\s*\{' % rust, src)
    if not m: die('%s: struct %s not found' % (path, rust))
    body, _ = block_after(src, m.start())
    fields = []
    for fm in re.finditer(r'(?:pub\s+)?(\w+)\s*:\s*([^,\n]+),', body):
        fields.append((fm.group(1), fm.group(2).strip()))
    generic = None
    if m.group(1):
        generic = (m.group(1)[1:-1], '(Lay.codec k)')
    m = re.search(r'impl(?:<[^>]*>)?\s+Serializable\s+for\s+%s(?:<\w+>)?' % rust, src)
    if not m: die('%s: impl Serializable for %s not found' % (path, rust))
    impl, _ = block_after(src, m.end())
    def fn_body(name):
        fm = re.search(r'fn\s+%s\b' % name, impl)
        if not fm: die('%s: %s::%s not found' % (path, rust, name))
        b, _ = block_after(impl, fm.end()); return b
    ser = fn_body('serialize_into'); de = fn_body('deserialize_from'); sz = fn_body('size_in_bytes')
    ser_order = re.findall(r'self\.(\w+)\.serialize_into', ser)
    de_reads = re.findall(r'let\s+(\w+)\s*=\s*([\w:<>]+?)::deserialize_from', de)
    lit = re.search(r'(?:Ok\()?\s*Self\s*\{([^}]*)\}', de)
    if not lit: die('%s: %s::deserialize_from builds no struct literal' % (path, rust))
    lit_fields = [x.strip().split(':')[0].strip() for x in lit.group(1).split(',') if x.strip()]
    de_order = [n for n, _ in de_reads]
    de_types = {n: t.replace('::<', '<') for n, t in de_reads}
    names = [f for f, _ in fields]
    if sorted(ser_order) != sorted(names): die('%s: serialize_into of %s writes %s, the struct has %s' % (path, rust, ser_order, names))
    if sorted(lit_fields) != sorted(names): die('%s: deserialize_from of %s fills %s, the struct has %s' % (path, rust, lit_fields, names))
    for n in de_order:
        if n not in names: die('%s: deserialize_from of %s reads an unknown field %s' % (path, rust, n))
    ftypes = dict(fields)
    for n in de_order:       # the type a field is read with must be the declared one
        if de_types[n].replace(' ', '') != ftypes[n].replace(' ', ''):
            die('%s: %s.%s declared %s but read as %s' % (path, rust, n, ftypes[n], de_types[n]))
    for n in names:
        if n not in fmap: die('%s: no Lean field mapped for %s.%s' % (path, rust, n))
    # size_in_bytes: a sum of `self.f.size_in_bytes()` and fixed-size terms
    terms = [t.strip() for t in re.sub(r'\s+', ' ', sz).strip().split('+')]
    size_terms = []
    for t in terms:
        m1 = re.fullmatch(r'self\.(\w+)\.size_in_bytes\(\)', t)
        m2 = re.fullmatch(r'(\w+)::size_of\(\)\.unwrap\(\)(?:\s*\*\s*(\d+))?', t)
        if m1:
            if m1.group(1) not in names: die('%s: size_in_bytes of %s mentions unknown field %s' % (path, rust, m1.group(1)))
            size_terms.append(('field', m1.group(1)))
        elif m2:
            width = {'usize': 8, 'u64': 8, 'bool': 1, 'u8': 1, 'u16': 2}.get(m2.group(1))
            if width is None: die('%s: size_of of %s not understood' % (path, m2.group(1)))
            size_terms.append(('const', width * int(m2.group(2) or 1)))
        else: die('%s: size_in_bytes term not understood: %r' % (path, t))
    return {'rust': rust, 'lean': lean, 'fields': fields, 'ser': ser_order, 'de': de_order, 'generic': generic,
            'fmap': fmap, 'size': size_terms, 'path': path}

def nested(parts):
    """right-nested `seq`: a (seq b (seq c d))"""
    if len(parts) == 1: return parts[0]
    return '(Codec.seq %s %s)' % (parts[0], nested(parts[1:]))
def proj(i, n):
    """projection of the i-th component of a right-nested n-tuple `p`"""
    if n == 1: return 'p'
    return 'p' + '.2' * i + ('.1' if i < n - 1 else '')

def emit(st):
    L = []
    lean, fmap, ftypes = st['lean'], st['fmap'], dict(st['fields'])
    k = ' (k : Backing)' if st['generic'] else ''
    karg = ' k' if st['generic'] else ''
    order = st['ser']; n = len(order)
    codecs = [type_codec(ftypes[f], st['generic']) for f in order]
    L.append('/-- `%s` (%s): writes %s -/' % (st['rust'], st['path'], ', '.join(order)))
    if n == 1:
        L.append('def %s.codec%s : Codec %s :=' % (lean, k, lean))
        L.append('  Codec.iso %s (fun p => { %s := p }) (fun x => x.%s)' % (codecs[0], fmap[order[0]], fmap[order[0]]))
    else:
        mk = ', '.join('%s := %s' % (fmap[f], proj(i, n)) for i, f in enumerate(order))
        un = ', '.join('x.%s' % fmap[f] for f in order)
        L.append('def %s.codec%s : Codec %s :=' % (lean, k, lean))
        L.append('  Codec.iso %s' % nested(codecs))
        L.append('    (fun p => { %s }) (fun x => (%s))' % (mk, un))
    # serialize and deserialize orders must agree: a closed, kernel-decided fact about the two lists read from the source
    L.append('theorem %s.orders_agree : (%s : List String) = %s := by decide' % (
        lean, '[' + ', '.join('"%s"' % f for f in st['ser']) + ']', '[' + ', '.join('"%s"' % f for f in st['de']) + ']'))
    # size_in_bytes as written
    parts = []
    for kind, v in st['size']:
        if kind == 'const': parts.append(str(v))
        else: parts.append('%s.size x.%s' % (type_codec(ftypes[v], st['generic']), fmap[v]))
    L.append('/-- `size_in_bytes` of `%s` as written in the source -/' % st['rust'])
    L.append('def %s.sizeInBytes%s (x : %s) : Nat := %s' % (lean, k, lean, ' + '.join(parts)))
    L.append('')
    return L

# ---- canonical shape of the impl bodies (AST level) and the pinned text of the generic impls ----------------------
# The codec combinators (`Codec.seq/arr/opt/u64 …`, Sucds/Model/Serial.lean) are the hand-written model of
#   * a struct impl that does nothing but (de)serialize its fields one after the other through `&mut writer/reader`,
#   * the generic impls of `Option<S>`, `Vec<S>`, the integers and `bool` in src/serial.rs, src/serial/primitive.rs.
# Any other statement in a struct impl (buffering, validation, masking, a different I/O call) or any change to the
# token text of the two generic files means the theorems about the generated codecs no longer speak about the code:
# the translator refuses (exit 2) and the check treats it as a broken proof obligation.
sys.path.insert(0, os.path.dirname(os.path.abspath(__file__)))
import hashlib
from rustparse import parse_file, lex, ParseError

def strip(e):
    while isinstance(e, tuple) and e and e[0] == 'paren': e = e[1]
    return e

def is_path(e, *segs):
    e = strip(e); return e[0] == 'path' and list(e[1]) == list(segs)

def io_arg_ok(args, name):
    if len(args) != 1: return False
    a = strip(args[0])
    return (a[0] == 'unary' and a[1] == '&mut' and is_path(a[2], name)) or is_path(a, name)

def ser_call(e, names):
    """`self.<f>.serialize_into(&mut writer)?`  -> f | None"""
    e = strip(e)
    if e[0] != 'try': return None
    c = strip(e[1])
    if c[0] == 'mcall' and c[2] == 'serialize_into' and io_arg_ok(c[3], 'writer'):
        r = strip(c[1])
        if r[0] == 'field' and is_path(r[1], 'self') and r[2] in names: return r[2]
    return None

def canonical_serialize(fn, names, where):
    body = fn[5]; stmts, tail = body[1], body[2]
    order = []
    if not stmts and tail is not None:      # delegation: `self.f.serialize_into(writer)`
        c = strip(tail)
        if c[0] == 'mcall' and c[2] == 'serialize_into' and io_arg_ok(c[3], 'writer') and strip(c[1])[0] == 'field': return [strip(c[1])[2]]
        die('%s: serialize_into is not in canonical form' % where)
    if not stmts or stmts[0][0] != 'let' or stmts[0][1] != ('pid', 'mem', True, False): die('%s: serialize_into does not start with `let mut mem = …`' % where)
    init = strip(stmts[0][3])
    if init == ('int', 0, None): pass
    else:
        f = ser_call(init, names)
        if f is None: die('%s: serialize_into: unexpected initialiser of `mem`' % where)
        order.append(f)
    for st in stmts[1:]:
        e = strip(st[1]) if st[0] == 'expr' else None
        f = ser_call(e[3], names) if e is not None and e[0] == 'assign' and e[1] == '+=' and is_path(e[2], 'mem') else None
        if f is None: die('%s: serialize_into contains a statement other than `mem += self.<field>.serialize_into(&mut writer)?;`' % where)
        order.append(f)
    t = strip(tail) if tail is not None else None
    if not (t is not None and t[0] == 'call' and is_path(t[1], 'Ok') and len(t[2]) == 1 and is_path(t[2][0], 'mem')): die('%s: serialize_into does not end with `Ok(mem)`' % where)
    return order

def canonical_deserialize(fn, names, where):
    body = fn[5]; stmts, tail = body[1], body[2]
    order = []
    for st in stmts:
        ok = False
        if st[0] == 'let' and st[1][0] == 'pid' and not st[1][2] and st[3] is not None:
            e = strip(st[3])
            if e[0] == 'try':
                c = strip(e[1])
                if c[0] == 'call' and strip(c[1])[0] == 'path' and strip(c[1])[1][-1] == 'deserialize_from' and io_arg_ok(c[2], 'reader') and st[1][1] in names:
                    order.append(st[1][1]); ok = True
        if not ok: die('%s: deserialize_from contains a statement other than `let <field> = <Type>::deserialize_from(&mut reader)?;`' % where)
    t = strip(tail) if tail is not None else None
    if not (t is not None and t[0] == 'call' and is_path(t[1], 'Ok') and len(t[2]) == 1 and strip(t[2][0])[0] == 'struct'): die('%s: deserialize_from does not end with `Ok(Self { … })`' % where)
    lit = strip(t[2][0])
    for fname, fe in lit[2]:
        if not is_path(fe, fname): die('%s: deserialize_from fills field %s with something other than the value read for it' % (where, fname))
    if lit[3] is not None: die('%s: deserialize_from uses struct update syntax' % where)
    return order

def check_canonical(st):
    try:
        items = parse_file(os.path.join(REPO, st['path']))
    except (ParseError, OSError) as e:
        die('%s: %s' % (st['path'], e))
    names = [f for f, _ in st['fields']]
    for it in items:
        if it[0] == 'impl' and it[2] is not None and it[2][0] == 'path' and it[2][1][-1] == 'Serializable' and it[3][0] == 'path' and it[3][1][-1] == st['rust']:
            fns = dict((x[1], x) for x in it[4] if x[0] == 'fn')
            extra = set(fns) - {'serialize_into', 'deserialize_from', 'size_in_bytes'}
            if extra: die('%s: impl Serializable for %s overrides %s' % (st['path'], st['rust'], sorted(extra)))
            so = canonical_serialize(fns['serialize_into'], names, '%s: %s' % (st['path'], st['rust']))
            do = canonical_deserialize(fns['deserialize_from'], names, '%s: %s' % (st['path'], st['rust']))
            if so != st['ser'] or do != st['de']: die('%s: %s: field orders read from the text and from the AST differ' % (st['path'], st['rust']))
            return
    die('%s: impl Serializable for %s not found by the parser' % (st['path'], st['rust']))

# token text (comments and layout ignored) of the generic impls the combinators were written for
PINNED = {'src/serial.rs': 'd9ec7f8b7fd3', 'src/serial/primitive.rs': '1985e0809dab'}
def token_sha(path):
    toks = lex(open(os.path.join(REPO, path)).read())
    return hashlib.sha256(' '.join(str(t.val) for t in toks).encode()).hexdigest()[:12]

try:
    parsed = [parse_struct(*s) for s in STRUCTS]
except (OSError, ValueError) as e:
    die(str(e))
for st in parsed: check_canonical(st)
if '--print-pins' in sys.argv:
    print({p_: token_sha(p_) for p_ in PINNED}); sys.exit(0)
for p_, want in PINNED.items():
    got = token_sha(p_)
    if got != want:
        die('%s changed (token hash %s, the codec combinators of Sucds/Model/Serial.lean model the text with hash %s): the generic Serializable impls of Option/Vec/integers/bool are no longer the code the C08/C13 theorems are about' % (p_, got, want))

H = ['-- GENERATED by tools/gen_codecs.py from the `Serializable` impls of the Rust sources; do not edit.',
     'import Sucds.Model.Serial', 'import Sucds.Model.WaveletMatrix',
     '/-! Codecs of every serializable structure: field order of `serialize_into` / `deserialize_from`, field types, and',
     '    the `size_in_bytes` expression, all read from the current sources. -/',
     'namespace Sucds', 'open Codec', '',
     '/-- a wavelet-matrix layer of backing kind `k` (the type parameter `B`) -/',
     'def Lay.codec (k : Backing) : Codec Lay :=', '  match k with',
     '  | .r9 => Codec.iso R9.codec Lay.r9 (fun l => match l with | .r9 x => x | _ => default)',
     '  | .da => Codec.iso DA.codec Lay.da (fun l => match l with | .da x => x | _ => default)',
     '  | .bv => Codec.iso BV.codec Lay.bv (fun l => match l with | .bv x => x | _ => default)', '']
body = []
lay_done = False
for st in parsed:
    if st['lean'] == 'WM' and not lay_done:
        body += H[8:]; lay_done = True
    body += emit(st)
new = '\n'.join(H[:8] + body + ['end Sucds']) + '\n'
old = open(OUT).read() if os.path.exists(OUT) else None
if old != new: open(OUT, 'w').write(new)
print('gen_codecs: %s %s (%d structures)' % ('updated' if old != new else 'unchanged', OUT, len(parsed)))
