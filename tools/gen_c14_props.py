#!/usr/bin/env python3
"""Generate Sucds/Proofs/C14Pop.lean (the 8-way case split is unrolled)."""
import sys
byteS = lambda e, i: f"(({e} >>> {8*i}) &&& 0xFF#64)"
BS = "(ONES_STEP_8 * byteCountsW x)"
def case_block(c):
    lo_arg = f"(by rw [BitVec.le_def, sB{c-1}_toNat, hkb]; omega)" if c > 0 else ""
    hi_arg = f"(by rw [BitVec.lt_def, sB{c}_toNat, hkb]; omega)"
    prevNat = "(by simp [Spec.cnt])" if c == 0 else f"(by rw [sB{c-1}_toNat])"
    return (f"obtain ⟨hp, hsub, hprev, hbor, _, _⟩ := sel{c} {BS} (BitVec.ofNat 64 k) hk64 hS8 m0 m1 m2 m3 m4 m5 m6 {lo_arg} {hi_arg}\n"
            f"have hI := selI{c} {BS} (BitVec.ofNat 64 k) hk64 hS8 m0 m1 m2 m3 m4 m5 m6 {lo_arg} {hi_arg}\n"
            f"exact finish c x k {c} _ (by omega) hk hp hsub {prevNat} hprev hbor hI {'(by simp [Spec.cnt])' if c == 0 else '(by simp only [Nat.reduceMul]; omega)'} (by simp only [Nat.reduceMul, Nat.reduceAdd]; omega)")
body, ind = "", "  "
for c in range(8):
    blk = "\n".join(ind + "  " + l for l in case_block(c).split("\n"))
    if c < 7:
        body += f"{ind}by_cases h{c} : k < cnt (bitsOf x) {8*(c+1)}\n{ind}·\n{blk}\n{ind}·\n"; ind += "  "
    else:
        body += "\n".join(ind[:-2] + "  " + l for l in case_block(c).split("\n")) + "\n"
src = f'''import Sucds.Proofs.BroadwordBV
/-! C14 — broadword primitives equal their mathematical definitions on every word, for every build
    configuration (portable and `intrinsics`, checked and wrapping arithmetic). -/
set_option linter.unusedSimpArgs false
set_option linter.unusedVariables false
set_option maxRecDepth 4096
namespace Sucds.C14
open Sucds Sucds.Broadword Sucds.Spec

theorem countP_range (f : Nat → Bool) (n : Nat) : (List.range n).countP f = cnt f n := by
  induction n with
  | zero => rfl
  | succ n ih => rw [List.range_succ, List.countP_append, ih]; simp [cnt, List.countP_cons]

/-- **popcount** -/
theorem popcount_ok (c : Cfg) (x : BitVec 64) : popcount c x = .ok (cnt (bitsOf x) 64) := by
  unfold popcount
  split
  · simp only [countOnes, countP_range]; rfl
  · rw [byteCounts_eq]; simp only [Except.bind, popcountW_ok]

theorem ones8_toNat : ONES_STEP_8.toNat = 72340172838076673 := by decide

theorem shiftAmount_ok (c : Cfg) (s : Nat) (h : s < 64) : shiftAmount c s = .ok (BitVec.ofNat 64 s) := by
  simp [shiftAmount, h]

theorem geq_count (S kb : BitVec 64) (ci : Nat) (hci : ci < 8)
    (hI : bytesSum (byteCountsW (selGeq S kb)) = BitVec.ofNat 64 ci) : cnt (bitsOf (selGeq S kb)) 64 = ci := by
  have := popcountW_ok (selGeq S kb)
  rw [hI, BitVec.toNat_ofNat] at this
  omega
theorem place_intr (c : Cfg) (g : BitVec 64) (ci : Nat) (hci : ci < 8) (e : cnt (bitsOf g) 64 = ci)
    (hc : c.intrinsics = true) : selPlaceM c g = .ok (8 * ci) := by
  unfold selPlaceM
  rw [if_pos hc, popcount_ok]
  simp only [Except.bind]
  rw [e, cmul_ok c (by omega)]; congr 1; omega
theorem place_port (c : Cfg) (g : BitVec 64) (ci : Nat) (hci : ci < 8) (hp : placePortable g = BitVec.ofNat 64 (8 * ci))
    (hc : ¬ c.intrinsics = true) : selPlaceM c g = .ok (8 * ci) := by
  unfold selPlaceM
  rw [if_neg hc, hp, BitVec.toNat_ofNat]; congr 1; omega
/-- both variants of the `place` block give 8 × (index of the byte holding the answer) -/
theorem selPlaceM_ok (c : Cfg) (S kb : BitVec 64) (ci : Nat) (hci : ci < 8)
    (hp : selPlace S kb = BitVec.ofNat 64 (8 * ci))
    (hI : bytesSum (byteCountsW (selGeq S kb)) = BitVec.ofNat 64 ci) :
    selPlaceM c (selGeq S kb) = .ok (8 * ci) := by
  have e := geq_count S kb ci hci hI
  have hp' : placePortable (selGeq S kb) = BitVec.ofNat 64 (8 * ci) := hp
  generalize selGeq S kb = g at e hp'
  by_cases hc : c.intrinsics = true
  · exact place_intr c g ci hci e hc
  · exact place_port c g ci hci hp' hc

/-- evaluation of the tail of `select_in_word` once the byte `ci` holding the answer is known -/
theorem finish (c : Cfg) (x : BitVec 64) (k ci : Nat) (prev : BitVec 64) (hci : ci < 8) (hk : k < cnt (bitsOf x) 64)
    (hp : selPlace {BS} (BitVec.ofNat 64 k) = BitVec.ofNat 64 (8 * ci))
    (hsub : ((({BS} <<< 8) >>> BitVec.ofNat 64 (8 * ci)) &&& 0xFF#64) = prev)
    (hprevN : prev.toNat = cnt (bitsOf x) (8 * ci))
    (hprev : prev ≤ BitVec.ofNat 64 k)
    (hbor : {BS} ≤ ((BitVec.ofNat 64 k * ONES_STEP_8) ||| MSBS_STEP_8))
    (hI : bytesSum (byteCountsW (selGeq {BS} (BitVec.ofNat 64 k))) = BitVec.ofNat 64 ci)
    (hlo : cnt (bitsOf x) (8 * ci) ≤ k) (hhi : k < cnt (bitsOf x) (8 * ci + 8)) :
    ∃ p, selectTail c x k {BS} = .ok (some p) ∧ IsKth (bitsOf x) 64 k p := by
  have hk64 : k < 64 := by have := cnt_le (bitsOf x) 64; omega
  have hkb : (BitVec.ofNat 64 k).toNat = k := by rw [BitVec.toNat_ofNat]; omega
  have hsplit := cnt_add (bitsOf x) (8 * ci) 8
  have hcong : cnt (fun i => bitsOf x (8 * ci + i)) 8 = cnt (fun i => ((x >>> (8*ci)) &&& 0xFF#64).toNat.testBit i) 8 :=
    cnt_congr _ _ 8 (fun i hi => (byte_testBit x (8*ci) i hi).symm)
  have hb : ((x >>> (8*ci)) &&& 0xFF#64).toNat < 256 := by
    rw [BitVec.toNat_and]; exact Nat.lt_of_le_of_lt Nat.and_le_right (by decide)
  have hrN : (BitVec.ofNat 64 k - prev).toNat = k - cnt (bitsOf x) (8 * ci) := by
    have hle := hprev
    rw [BitVec.le_def, hkb, hprevN] at hle
    rw [BitVec.toNat_sub, hkb, hprevN]; omega
  have hr8 : (BitVec.ofNat 64 k - prev).toNat < 8 := by
    have := cnt_le (fun i => bitsOf x (8 * ci + i)) 8
    omega
  have hidx : (((x >>> (8*ci)) &&& 0xFF#64) ||| ((BitVec.ofNat 64 k - prev) <<< 8)).toNat
      = ((x >>> (8*ci)) &&& 0xFF#64).toNat + 256 * (BitVec.ofNat 64 k - prev).toNat := by
    rw [or_shl8 _ _ (by rw [BitVec.and_assoc]; rfl) (by rw [BitVec.lt_def]; simpa using hr8)]
    rw [BitVec.toNat_add, BitVec.toNat_mul]
    have : (256#64).toNat = 256 := rfl
    rw [this]; omega
  obtain ⟨q, hq0, hq, hbit, hcnt⟩ := table_ok ((x >>> (8*ci)) &&& 0xFF#64).toNat (BitVec.ofNat 64 k - prev).toNat hb hr8
    (by rw [← hcong]; omega)
  refine ⟨8 * ci + q, ?_, by omega, ?_, ?_⟩
  · unfold selectTail
    rw [bmul_ok c (by rw [hkb, ones8_toNat]; omega)]
    simp only [Except.bind]
    rw [bsub_ok c (by rw [← BitVec.le_def]; exact hbor)]
    simp only [Except.bind]
    have hgeq : (BitVec.ofNat 64 k * ONES_STEP_8 ||| MSBS_STEP_8) - {BS} &&& MSBS_STEP_8 = selGeq {BS} (BitVec.ofNat 64 k) := rfl
    rw [hgeq, selPlaceM_ok c _ _ ci hci hp hI]
    simp only [Except.bind]
    rw [shiftAmount_ok c _ (by omega)]
    simp only [Except.bind]
    rw [hsub, bsub_ok c (by rw [← BitVec.le_def]; exact hprev)]
    simp only [Except.bind]
    have hsh : x >>> BitVec.ofNat 64 (8 * ci) = x >>> (8 * ci) := by
      rw [BitVec.ushiftRight_eq', BitVec.toNat_ofNat, Nat.mod_eq_of_lt (by omega)]
    rw [hsh, hidx, hq0]
    simp only []
    rw [cadd_ok c (by omega)]
  · rw [← byte_testBit x (8*ci) _ hq]; exact hbit
  · rw [cnt_add, cnt_congr _ _ _ (fun i hi => (byte_testBit x (8*ci) i (by omega)).symm), hcnt]
    omega

/-- **select_in_word**: the position of the k-th set bit, `none` iff `k ≥ popcount`, for every k -/
theorem selectInWord_ok (c : Cfg) (x : BitVec 64) (k : Nat) :
    selectInWord c x k = .ok (sel (bitsOf x) 64 k) := by
  by_cases hk : k < cnt (bitsOf x) 64
  · suffices h : ∃ p, selectTail c x k {BS} = .ok (some p) ∧ IsKth (bitsOf x) 64 k p by
      obtain ⟨p, h1, h2⟩ := h
      unfold selectInWord
      rw [popcount_ok]
      simp only [Except.bind]
      rw [if_neg (by omega), byteCounts_eq]
      simp only [Except.bind]
      rw [h1, sel_eq_some _ _ _ _ h2]
    have hk64' : k < 64 := by have := cnt_le (bitsOf x) 64; omega
    have hkb : (BitVec.ofNat 64 k).toNat = k := by rw [BitVec.toNat_ofNat]; omega
    have hk64 : BitVec.ofNat 64 k < 64#64 := by rw [BitVec.lt_def, hkb]; simpa using hk64'
    have hS8 := bsum_hi _ (bc_nibble x)
    have mono : ∀ a b : Nat, a ≤ b → cnt (bitsOf x) a ≤ cnt (bitsOf x) b := fun a b h => cnt_mono _ h
{chr(10).join(f"    have m{j} : {byteS(BS, j)} ≤ {byteS(BS, j+1)} := by rw [BitVec.le_def, sB{j}_toNat, sB{j+1}_toNat]; exact mono _ _ (by omega)" for j in range(7))}
{chr(10).join("  " + l for l in body.split(chr(10)))}
  · have hle : cnt (bitsOf x) 64 ≤ k := by omega
    unfold selectInWord
    rw [popcount_ok]
    simp only [Except.bind]
    rw [if_pos hle, sel_eq_none _ _ _ hle]

#print axioms popcount_ok
#print axioms selectInWord_ok
end Sucds.C14
'''
open(sys.argv[1], 'w').write(src)
