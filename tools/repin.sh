#!/bin/sh
# Re-pin everything that is compared with "the pinned tree" to /repo's CURRENT working tree. Run only after the proofs have
# been moved to the new text (every check green on that tree): translation text, generated constants/codecs, skeleton, literals.
set -e
cd "$(dirname "$0")/.."
python3 tools/gen_consts.py /repo lean/Sucds/Gen/Consts.lean
python3 tools/gen_codecs.py /repo lean/Sucds/Gen/Codecs.lean
python3 tools/gen_fns.py /repo lean/Sucds/Gen/Fns.lean --report .build/gen_fns_report.json --repin
cp lean/Sucds/Gen/Consts.lean lean/Sucds/Gen/ConstsPinned.txt
cp lean/Sucds/Gen/Codecs.lean lean/Sucds/Gen/CodecsPinned.txt
python3 tools/gen_skeleton.py /repo .build/gen_fns_report.json --pin
python3 tools/gens.py --pin-literals /repo
