#!/usr/bin/env python3
"""Confirm a seeded change and run the checks against it.

  tools/seed_eval.py <seed-id> <property> <dir with patch.diff, demo.rs, meta.txt> [--checks C01,C15] [--tier quick]

1. in a scratch worktree of /repo (under /tmp, removed afterwards): the patch applies, the crate builds with and
   without `intrinsics`, the pinned unit tests pass, the demonstration fails with the patch and passes without it;
2. applies the patch to /repo itself, runs the registered check(s), and undoes it straight afterwards;
3. writes /verif/seeded/<seed-id>/{patch.diff, demo.rs, meta.json}."""
import sys, os, subprocess, json, shutil, argparse, re, time

ROOT = os.path.dirname(os.path.dirname(os.path.abspath(__file__)))
ENV = dict(os.environ, CARGO_NET_OFFLINE='true', CARGO_TERM_COLOR='never')

def sh(cmd, cwd=None, timeout=3600):
    r = subprocess.run(cmd, shell=True, cwd=cwd, capture_output=True, text=True, env=ENV, timeout=timeout)
    return r.returncode, r.stdout + r.stderr

def main():
    ap = argparse.ArgumentParser()
    ap.add_argument('seed'); ap.add_argument('prop'); ap.add_argument('dir')
    ap.add_argument('--checks'); ap.add_argument('--tier', default='quick'); ap.add_argument('--demo-flags', default='')
    ap.add_argument('--repo', default='/repo', help='tree the patch is applied to for the check runs (a scratch worktree for triage; /repo for the recorded run)')
    a = ap.parse_args()
    patch = os.path.abspath(os.path.join(a.dir, 'patch.diff'))
    demo = os.path.join(a.dir, 'demo.rs')
    meta_txt = open(os.path.join(a.dir, 'meta.txt')).read() if os.path.exists(os.path.join(a.dir, 'meta.txt')) else ''
    if not meta_txt and os.path.exists(os.path.join(a.dir, 'meta.json')):
        meta_txt = json.load(open(os.path.join(a.dir, 'meta.json'))).get('needs_to_manifest', '')
    out = {'seed': a.seed, 'breaks_property': a.prop, 'needs_to_manifest': meta_txt, 'confirmation': {}, 'checks': {}}
    wt = '/tmp/seedwt-%s' % a.seed
    sh('git -C /repo worktree remove --force %s' % wt)
    rc, o = sh('git -C /repo worktree add -q %s HEAD' % wt)
    assert rc == 0, o
    try:
        demo_name = 'demo_' + re.sub(r'[^A-Za-z0-9_]', '_', a.seed)
        os.makedirs(os.path.join(wt, 'tests'), exist_ok=True)
        shutil.copy(demo, os.path.join(wt, 'tests', demo_name + '.rs'))
        flags = a.demo_flags
        rc0, o0 = sh('cargo test --offline %s --test %s 2>&1 | tail -15' % (flags, demo_name), cwd=wt)
        out['confirmation']['demo_without_patch'] = 'passes' if ('test result: ok' in o0 and 'FAILED' not in o0) else 'DOES NOT PASS: ' + o0[-600:]
        rc, o = sh('git apply %s' % patch, cwd=wt)
        out['confirmation']['patch_applies'] = (rc == 0)
        assert rc == 0, o
        rc, o = sh('cargo build --offline 2>&1 | tail -3 && cargo build --offline --features intrinsics 2>&1 | tail -3', cwd=wt)
        out['confirmation']['builds_default_and_intrinsics'] = ('error' not in o)
        rc, o = sh('cargo test --workspace --no-fail-fast --offline --lib 2>&1 | grep "test result"', cwd=wt)
        out['confirmation']['pinned_unit_tests_with_patch'] = o.strip()
        rc1, o1 = sh('cargo test --offline %s --test %s 2>&1 | tail -25' % (flags, demo_name), cwd=wt)
        out['confirmation']['demo_with_patch'] = 'fails' if ('FAILED' in o1 or 'failed' in o1 or 'panicked' in o1) else 'DOES NOT FAIL: ' + o1[-600:]
    finally:
        sh('git -C /repo worktree remove --force %s' % wt)
    confirmed = (out['confirmation'].get('demo_without_patch') == 'passes' and out['confirmation'].get('demo_with_patch') == 'fails'
                 and '80 passed; 0 failed' in out['confirmation'].get('pinned_unit_tests_with_patch', ''))
    out['confirmed'] = confirmed
    # run the checks against /repo with the patch applied
    checks = (a.checks.split(',') if a.checks else [a.prop])
    REPO = a.repo
    if REPO != '/repo': ENV['SUCDS_REPO'] = REPO
    rc, o = sh('git -C %s status --porcelain --untracked-files=no' % REPO)
    assert o.strip() == '', '%s is not clean: ' % REPO + o
    rc, o = sh('git -C %s apply %s' % (REPO, patch))
    assert rc == 0, o
    try:
        for c in checks:
            t0 = time.time()
            rc, o = sh('python3 tools/check.py %s --tier %s' % (c, a.tier), cwd=ROOT, timeout=7200)
            lines = [l for l in o.splitlines() if l.startswith('VIOLATION') or l.startswith('OK ') or l.startswith('MACHINERY') or l.startswith('KNOWN')]
            res = {'exit': rc, 'output': lines[:6], 'wall_s': round(time.time() - t0)}
            for l in lines:
                m = re.search(r'replay=(\S+)', l)
                if m and os.path.exists(m.group(1)):
                    rp = json.load(open(m.group(1)))
                    res['replay_kind'] = rp.get('kind')
                    if 'finding' in rp: res['first_finding'] = {k: rp['finding'][k][:160] for k in ('request', 'implementation', 'spec', 'config') if k in rp['finding']}
                    break
            out['checks']['%s/%s' % (c, a.tier)] = res
    finally:
        sh('git -C %s checkout -- . && git -C %s clean -fdq src' % (REPO, REPO))
    rc, o = sh('git -C %s status --porcelain --untracked-files=no' % REPO)
    assert o.strip() == '', 'tree not restored: ' + o
    out['caught_by'] = [k for k, v in out['checks'].items() if v['exit'] == 1]
    d = os.path.join(ROOT, 'seeded', a.seed)
    os.makedirs(d, exist_ok=True)
    for src, name in ((patch, 'patch.diff'), (demo, 'demo.rs')):
        if os.path.abspath(src) != os.path.abspath(os.path.join(d, name)): shutil.copy(src, os.path.join(d, name))
    json.dump(out, open(os.path.join(d, 'meta.json'), 'w'), indent=1)
    print(json.dumps({k: out[k] for k in ('seed', 'confirmed', 'caught_by')}), json.dumps(out['checks'])[:600])

if __name__ == '__main__':
    main()
