"""Structure-aware script generators for the correspondence check. Every random choice comes from the
`random.Random` instance passed in, so (property, seed, tier) determines the scripts exactly.
A *case* is a list of request lines starting with `case <name>`; cases are independent."""
import random, os, json

MAXU = 2**64 - 1

# ------------------------------------------------------------------------------------------------
# bit strings (python ints, bit i = position i)

def bits_lit(n, v):
    """`len:hexword,hexword,…`"""
    words = []
    for i in range((n + 63) // 64):
        words.append('%x' % ((v >> (64 * i)) & MAXU))
    return '%d:%s' % (n, ','.join(words))

def rand_bits(rng, n, density):
    if n == 0: return 0
    if density <= 0: return 0
    if density >= 1: return (1 << n) - 1
    if density == 0.5: return rng.getrandbits(n)
    # sparse / dense by and-ing / or-ing random words
    v = rng.getrandbits(n)
    k = 1
    d = 0.5
    if density < 0.5:
        while d > density * 1.5 and k < 8:
            v &= rng.getrandbits(n); d /= 2; k += 1
        return v
    else:
        while (1 - d) > (1 - density) * 1.5 and k < 8:
            v |= rng.getrandbits(n); d = 1 - (1 - d) / 2; k += 1
        return v

LEN_EDGES = [0, 1, 2, 63, 64, 65, 127, 128, 129, 511, 512, 513, 1023, 1024, 1025, 4095, 4096, 4097]

def pick_len(rng, tier, big=False):
    r = rng.random()
    if r < 0.35: return rng.choice(LEN_EDGES)
    if r < 0.55: return rng.randrange(0, 300)
    if r < 0.85: return rng.randrange(300, 20000)
    hi = (2_000_000 if tier == 'thorough' else 300_000) if big else 70_000
    return rng.randrange(20000, hi)

def pick_bits(rng, tier, big=False, n=None):
    if n is None: n = pick_len(rng, tier, big)
    shape = rng.choice(['z', 'o', 'h', 'h', 'sparse', 'dense', 'runs', 'vs', 'vd'])
    if shape == 'z': v = 0
    elif shape == 'o': v = (1 << n) - 1
    elif shape == 'h': v = rand_bits(rng, n, 0.5)
    elif shape == 'sparse': v = rand_bits(rng, n, 0.06)
    elif shape == 'dense': v = rand_bits(rng, n, 0.94)
    elif shape == 'vs': v = rand_bits(rng, n, 0.004)
    elif shape == 'vd': v = rand_bits(rng, n, 0.996)
    else:  # runs of ones and zeros with random lengths
        v = 0; p = 0; one = rng.random() < 0.5
        while p < n:
            l = rng.choice([1, 3, 17, 64, 200, 512, 1024, 3000])
            l = min(l, n - p)
            if one: v |= ((1 << l) - 1) << p
            p += l; one = not one
    return n, v

def ones_positions(n, v):
    out = []; base = 0
    while v:
        w = v & MAXU
        while w:
            l = (w & -w).bit_length() - 1
            out.append(base + l); w &= w - 1
        v >>= 64; base += 64
    return out

def arg_set(rng, specials, hi, k):
    """query arguments: boundary values, given specials ±1, uniform below hi; k of them"""
    base = [0, 1, 2, 63, 64, 65, 2**63, MAXU - 1, MAXU]
    for s in specials:
        for d in (-1, 0, 1):
            x = s + d
            if 0 <= x <= MAXU: base.append(x)
    out = []
    for _ in range(k):
        r = rng.random()
        if r < 0.5 or hi <= 0: out.append(rng.choice(base))
        else: out.append(rng.randrange(0, hi + 2))
    # always include the tightest boundaries once
    for s in specials[:3]:
        out.append(s)
    return [min(max(x, 0), MAXU) for x in out]

# ------------------------------------------------------------------------------------------------

def bit_queries(rng, oid, n, v, nq, sel0=True, rank=True, acc=True, pred=False):
    pos = ones_positions(n, v) if n <= 400_000 else []
    ones = len(pos) if n <= 400_000 else bin(v).count('1')
    zeros = n - ones
    L = ['q %d num_bits' % oid, 'q %d num_ones' % oid, 'q %d num_zeros' % oid, 'q %d is_empty' % oid, 'q %d len' % oid]
    somepos = rng.sample(pos, min(len(pos), 4)) if pos else []
    for a in arg_set(rng, [n, n - 1, n + 1] + somepos, n, nq):
        if acc: L.append('q %d access %d' % (oid, a))
        if rank:
            L.append('q %d rank1 %d' % (oid, a)); L.append('q %d rank0 %d' % (oid, a))
    for a in arg_set(rng, [ones, ones - 1, ones + 1, 1023, 1024, 1025, 2047, 2048, 3071, 3072], ones, nq):
        if a >= 0: L.append('q %d select1 %d' % (oid, a))
    if sel0:
        for a in arg_set(rng, [zeros, zeros - 1, zeros + 1, 1023, 1024, 2048, 3072], zeros, nq):
            if a >= 0: L.append('q %d select0 %d' % (oid, a))
    if pred:
        for a in arg_set(rng, [n, n - 1] + somepos, n, nq):
            for m in ('predecessor1', 'successor1'):
                L.append('q %d %s %d' % (oid, m, a))
    return L

def gen_C01(rng, tier):
    cases = []
    ncase = 60 if tier == 'quick' else 400
    for ci in range(ncase):
        big = ci % 6 == 0
        n, v = pick_bits(rng, tier, big=big)
        if ci % 10 == 3:  # ≥ 3 hint chunks for ones and zeros
            n = rng.choice([8192, 9000, 12288 + rng.randrange(0, 600)]); v = rand_bits(rng, n, rng.choice([0.5, 0.5, 0.94, 0.06]))
        h1, h0 = rng.randrange(2), rng.randrange(2)
        L = ['case C01-%d n=%d' % (ci, n)]
        ctor = rng.choice(['new', 'new', 'build'])
        if ctor == 'new': L.append('new 0 r9 new %s %d %d' % (bits_lit(n, v), h1, h0))
        else: L.append('new 0 r9 build %s %d %d %d' % (bits_lit(n, v), rng.randrange(2), h1, h0))
        L += bit_queries(rng, 0, n, v, 6 if big else 10)
        if n <= 70000:
            L.append('q 0 ser')
        L.append('q 0 size_in_bytes')
        if ci % 5 == 0 and n <= 20000:  # hints never change an answer: the other three configurations
            k = 1
            for a in (0, 1):
                for b in (0, 1):
                    if (a, b) != (h1, h0):
                        L.append('new %d r9 new %s %d %d' % (k, bits_lit(n, v), a, b))
                        L += [l.replace('q 0 ', 'q %d ' % k, 1) for l in L if l.startswith('q 0 select')]
                        k += 1
        cases.append(L)
    return cases

def darray_bits(rng, tier):
    """inputs mixing dense blocks (1024 ones in < 65536 bits) and sparse blocks (span ≥ 65536)"""
    v = 0; p = 0
    nblocks = rng.randrange(1, 5 if tier == 'quick' else 12)
    for _ in range(nblocks):
        kind = rng.choice(['dense', 'sparse', 'edge', 'full', 'partial'])
        if kind == 'dense':
            span = rng.choice([1024, 1500, 4096, 30000, 65535])
            cnt = rng.choice([1024, 1024, 2048])
            ps = sorted(rng.sample(range(span), min(cnt, span)))
            for x in ps: v |= 1 << (p + x)
            p += span + rng.choice([0, 1, 63, 64, 1000])
        elif kind == 'sparse':
            cnt = rng.choice([1024, 700, 1025])
            gap = rng.choice([70, 64, 65, 100])
            for i in range(cnt): v |= 1 << (p + i * gap)
            p += cnt * gap + rng.choice([0, 5, 70000])
        elif kind == 'edge':  # 1024 ones whose last - first is exactly 65535 / 65536 / 65537
            span = rng.choice([65535, 65536, 65537])
            ps = [0] + sorted(rng.sample(range(1, span), 1022)) + [span]
            for x in ps: v |= 1 << (p + x)
            p += span + 1 + rng.choice([0, 1, 64])
        elif kind == 'full':
            l = rng.choice([1024, 2048, 3000])
            v |= ((1 << l) - 1) << p; p += l + rng.choice([0, 1, 100000])
        else:
            cnt = rng.randrange(1, 1024)
            span = rng.choice([cnt, cnt * 3, 70000 + cnt])
            ps = sorted(rng.sample(range(span), cnt))
            for x in ps: v |= 1 << (p + x)
            p += span
    if rng.random() < 0.35:
        # final partial block of 32j+1 positions whose span is exactly 65535 / 65536 / 65537: the last
        # position is a sub-block start, so its u16 offset is at the limit of what a dense block can hold
        j = rng.randrange(1, 32); cnt = 32 * j + 1
        span = rng.choice([65535, 65536, 65536, 65537])
        ps = [0] + sorted(rng.sample(range(1, span), cnt - 2)) + [span]
        # pad the preceding block so that this one starts a fresh block of 1024
        have = bin(v).count('1')
        fill = (-have) % 1024
        for i in range(fill): v |= 1 << (p + i)
        p += fill + rng.choice([0, 3])
        for x in ps: v |= 1 << (p + x)
        p += span + 1
    n = p + rng.choice([0, 1, 63, 64, 65, 500])
    return n, v

def gen_C02(rng, tier):
    cases = []
    ncase = 40 if tier == 'quick' else 250
    for ci in range(ncase):
        if ci % 3 == 0: n, v = darray_bits(rng, tier)
        elif ci % 3 == 1: n, v = pick_bits(rng, tier, big=(ci % 12 == 1))
        else:
            n, v = darray_bits(rng, tier); v = ((1 << n) - 1) ^ v   # the zeros side gets the structure
        r, s0 = rng.randrange(2), rng.randrange(2)
        L = ['case C02-%d n=%d' % (ci, n)]
        if rng.random() < 0.7: L.append('new 0 da new %s %d %d' % (bits_lit(n, v), r, s0))
        else: L.append('new 0 da build %s %d %d %d' % (bits_lit(n, v), r, rng.randrange(2), s0))
        L += bit_queries(rng, 0, n, v, 8, sel0=bool(s0), rank=bool(r))
        ones = bin(v).count('1'); zeros = n - ones
        for cnt, m, on in ((ones, 'select1', True), (zeros, 'select0', bool(s0))):
            if not on or cnt == 0: continue
            ks = set()
            for b in range(0, cnt, 1024):
                ks.update([b, b + 1, b + 31, b + 32, b + 33, b + 1023])
            ks.update([cnt - 1, cnt, cnt - 33, cnt - 32, cnt - 31])
            ks = [k for k in ks if 0 <= k <= cnt]
            for k in rng.sample(sorted(ks), min(len(ks), 30)): L.append('q 0 %s %d' % (m, k))
        if n <= 140000: L.append('q 0 ser')
        L.append('q 0 size_in_bytes')
        if ci % 6 == 0 and n <= 140000:   # enabling extra indexes never changes an answer
            L.append('new 1 da new %s 1 1' % bits_lit(n, v))
            L += [l.replace('q 0 ', 'q 1 ', 1) for l in L if l.startswith('q 0 select1') or l.startswith('q 0 access')]
        cases.append(L)
    return cases

def gen_C03(rng, tier):
    cases = []
    ncase = 60 if tier == 'quick' else 300
    maxw = 17 if tier == 'quick' else 20
    for ci in range(ncase):
        if ci % 4 == 0:
            n, v = pick_bits(rng, tier)
        elif ci % 4 == 1:   # length ≈ ones * 2^w so that the low width is w
            w = ci // 4 % (maxw + 1)
            k = rng.choice([1, 2, 3, 7])
            n = k * (1 << w) + rng.choice([0, 0, 1, (1 << w) - 1])
            v = 0
            for x in rng.sample(range(n), min(k, n)): v |= 1 << x
        elif ci % 4 == 2:
            n = rng.choice([1, 2, 64, 65, 200, 5000])
            v = rng.choice([0, 1, 1 << (n - 1), 1 | (1 << (n - 1))])
        else:
            n = rng.randrange(1, 30000); v = rand_bits(rng, n, rng.choice([0.003, 0.02, 0.2, 0.5]))
        r = 1 if ci % 5 else 0
        L = ['case C03-%d n=%d' % (ci, n)]
        if rng.random() < 0.8: L.append('new 0 sa new %s %d' % (bits_lit(n, v), r))
        else: L.append('new 0 sa build %s %d %d 0' % (bits_lit(n, v), r, rng.randrange(2)))
        if ci % 17 == 0: L.append('new 9 sa build %s 1 1 1' % bits_lit(min(n, 100), v & ((1 << min(n, 100)) - 1)))
        L += bit_queries(rng, 0, n, v, 8, sel0=False, rank=bool(r), pred=bool(r))
        if n <= 70000: L.append('q 0 ser')
        L.append('q 0 size_in_bytes')
        cases.append(L)
    # the Elias-Fano code behind a large SArray: high-bit vector with a sparse 1024-block followed by dense ones
    for bi, (u, xs) in enumerate(big_ef_shapes(rng, tier)[:(1 if tier == 'quick' else 2)]):
        v = 0
        for x in set(xs): v |= 1 << x
        ones = sorted(set(xs)); m = len(ones)
        L = ['case C03-big-%d n=%d ones=%d' % (bi, u, m), 'new 0 sa new %s 1' % bits_lit(u, v)]
        for k in sorted(set([0, 299, 300, 1023, 1024, 1056, 2048, m - 1, m] + [rng.randrange(0, m) for _ in range(10)])): L.append('q 0 select1 %d' % k)
        for p_ in sorted(set([0, u, u - 1] + [ones[k] + d for k in (0, min(299, m - 1), min(1056, m - 1), m // 2, m - 1) for d in (-1, 0, 1) if 0 <= ones[k] + d] + [rng.randrange(0, u) for _ in range(10)])):
            for q in ('access', 'rank1', 'rank0', 'predecessor1', 'successor1'): L.append('q 0 %s %d' % (q, p_))
        L.append('q 0 size_in_bytes')
        cases.append(L)
    # the final partial 1024-block of the high bits holds 32j+1 ones whose ends are exactly `span` apart (the dense/sparse
    # threshold of the DArray behind the Elias-Fano code): 65536 ones at the front, low width 2
    for span, j in ([(65536, 1)] if tier == 'quick' else [(65535, 1), (65536, 1), (65537, 1), (65536, 2), (65536, 5)]):
        m = 65536 + 32 * j + 1; lw = 2
        v0 = 65536 + rng.randrange(0, 4) * 4
        tail = [v0 + i for i in range(32 * j)]
        v1 = (((v0 >> lw) + span - 32 * j) << lw) + rng.randrange(0, 4)
        n = v1 + 1 + rng.randrange(0, 1000)
        assert 4 * m <= n < 8 * m and tail[-1] < v1
        ones = list(range(65536)) + tail + [v1]
        v = ((1 << 65536) - 1)
        for x in tail + [v1]: v |= 1 << x
        L = ['case C03-span-%d-%d n=%d ones=%d' % (span, j, n, m), 'new 0 sa new %s 1' % bits_lit(n, v)]
        for k in sorted(set([0, 1023, 1024, 65535, 65536, 65537, m - 2, m - 1, m] + [rng.randrange(0, m) for _ in range(6)])): L.append('q 0 select1 %d' % k)
        for p_ in sorted(set([0, n, n - 1, 65535, 65536, v0, v0 + 1, tail[-1], tail[-1] + 1, v1 - 1, v1, v1 + 1] + [rng.randrange(0, n) for _ in range(6)])):
            if p_ > n: continue
            for q in ('access', 'rank1', 'predecessor1', 'successor1'): L.append('q 0 %s %d' % (q, p_))
        L.append('q 0 size_in_bytes')
        cases.append(L)
    return cases

def mono_seq(rng, tier, ci):
    """(universe, capacity, values) for Elias-Fano: all low widths, duplicates, u<n, u=max+1, huge u"""
    mode = ci % 8
    n = rng.choice([1, 2, 3, 10, 63, 64, 65, 66, 130, 200, 300, 1000]) if tier == 'quick' else rng.choice([1, 2, 64, 65, 129, 200, 500, 2000, 10000])
    if mode == 0:      # low width w exactly
        w = (ci // 8) % 64
        u = min(MAXU, n << w) + rng.choice([0, 0, 1])
        u = min(u, MAXU)
    elif mode == 1: u = rng.randrange(1, n + 1)            # u ≤ n: many duplicates, width 0
    elif mode == 2: u = rng.randrange(n, 40 * n + 2)
    elif mode == 3: u = MAXU - rng.randrange(0, 3)
    elif mode == 4: u = rng.randrange(1, 2**rng.randrange(1, 64))
    else: u = rng.randrange(1, 2**rng.randrange(1, 40))
    style = rng.choice(['uniform', 'dups', 'low', 'high', 'clusters'])
    if style == 'uniform': xs = [rng.randrange(0, u) for _ in range(n)]
    elif style == 'dups':
        pool = [rng.randrange(0, u) for _ in range(max(1, n // 8))]; xs = [rng.choice(pool) for _ in range(n)]
    elif style == 'low': xs = [rng.randrange(0, min(u, 5)) for _ in range(n)]
    elif style == 'high': xs = [u - 1 - rng.randrange(0, min(u, 5)) for _ in range(n)]
    else:
        c = [rng.randrange(0, u) for _ in range(3)]; xs = [min(u - 1, rng.choice(c) + rng.randrange(0, 3)) for _ in range(n)]
    xs.sort()
    if mode == 5 and xs: u = xs[-1] + 1                     # u = max + 1
    cap = n + rng.choice([0, 0, 0, 1, 5])
    return u, cap, xs

def big_ef_shapes(rng, tier):
    """Elias-Fano inputs large enough (high-bit vector > 65536 bits) for the DArray indexes over the high bits to
    contain a *sparse* block of 1024 positions followed by dense blocks — for the ones (select) and for the zeros (rank)"""
    out = []
    # ones: 300 tiny values, then everything clustered near the top of the universe
    n = 50000 + rng.randrange(0, 2000); u = 60 * n
    xs = sorted([rng.randrange(0, 300) for _ in range(300)] + [u - 1 - rng.randrange(0, 40 * (n - 300)) for _ in range(n - 300)])
    out.append((u, xs))
    # zeros: a long run of values with (nearly) the same high part in the middle of the universe
    n = 70000 + rng.randrange(0, 2000); u = 60 * n; mid = u // 3
    xs = sorted([mid + rng.randrange(0, 32) for _ in range(n - 2000)] + [rng.randrange(0, u) for _ in range(2000)])
    out.append((u, xs))
    if tier != 'quick':
        n = 150000; u = 200 * n
        xs = sorted([rng.randrange(0, 500) for _ in range(700)] + [u // 2 + rng.randrange(0, 64) for _ in range(n - 1400)] + [u - 1 - rng.randrange(0, 1000) for _ in range(700)])
        out.append((u, xs))
    return out

def exact_span_seq(span, j=1):
    """(universe, values): 64 dense 1024-blocks of ones in the high bits (65536 zeros-valued elements, low width 0), then a
    final partial block of 32*j + 1 elements whose first and last high-bit positions are exactly `span` apart"""
    m = 32 * j + 1
    xs = [0] * 65536 + [1] * (m - 1) + [1 + span - (m - 1)]
    return xs[-1] + 1, xs

def lst(xs): return ','.join(map(str, xs)) if xs else '-'

def ef_queries(rng, oid, u, xs, nq, rank=True):
    n = len(xs)
    L = ['q %d len' % oid, 'q %d universe' % oid, 'q %d is_empty' % oid, 'q %d has_rank' % oid]
    some = rng.sample(xs, min(n, 5)) if xs else []
    for k in arg_set(rng, [n, n - 1, n + 1], n, nq):
        L.append('q %d select %d' % (oid, k)); L.append('q %d delta %d' % (oid, k))
    if rank:
        for p in arg_set(rng, [u, u - 1, u + 1] + some, min(u, (xs[-1] if xs else 0) + 5), nq):
            for m in ('rank', 'predecessor', 'successor'): L.append('q %d %s %d' % (oid, m, p))
    for v in arg_set(rng, some + [u], min(u, (xs[-1] if xs else 0) + 5), nq):
        L.append('q %d binsearch %d' % (oid, v))
    for _ in range(nq):
        a = rng.randrange(0, n + 1); b = rng.randrange(0, n + 1)
        if rng.random() < 0.7 and a > b: a, b = b, a
        if rng.random() < 0.1: b = rng.choice([n + 1, n + 70, MAXU])
        if rng.random() < 0.3: a, b = 0, n
        v = rng.choice(some) if some and rng.random() < 0.7 else rng.randrange(0, min(u, MAXU) + 1)
        L.append('q %d binsearch_range %d..%d %d' % (oid, a, b, v))
    return L

def gen_C04(rng, tier):
    cases = []
    ncase = 130 if tier == 'quick' else 700
    for ci in range(ncase):
        u, cap, xs = mono_seq(rng, tier, ci)
        L = ['case C04-%d u=%d n=%d' % (ci, u, len(xs)), 'new 0 efb new %d %d' % (u, cap)]
        L.append('m 0 extend %s' % lst(xs))
        rank = ci % 7 != 6
        L.append('new 1 ef build 0 %d' % int(rank))
        L += ef_queries(rng, 1, u, xs, 6, rank)
        n = len(xs)
        for k in set([0, 1, n // 2, max(0, n - 1), n, n + 1]):
            L.append('it 1 iter %d %s' % (k, ','.join(['n'] * min(n - min(k, n) + 2, 70))))
            # the same walk by hops (`nth`, which `skip` and `step_by` are built on)
            L.append('it 1 iter %d %s' % (k, ','.join(rng.choice(['n', 't0', 't1', 't2', 't5', 't%d' % rng.randrange(0, n + 2)]) for _ in range(min(n - min(k, n) + 2, 12)))))
        L.append('q 1 ser'); L.append('q 1 size_in_bytes')
        cases.append(L)
    # large sequences whose high-bit vector has a sparse 1024-block followed by dense ones (ones: select; zeros: rank)
    for bi, (u, xs) in enumerate(big_ef_shapes(rng, tier)):
        n = len(xs)
        L = ['case C04-big-%d u=%d n=%d' % (bi, u, n), 'new 0 efb new %d %d' % (u, n), 'm 0 extend %s' % lst(xs), 'new 1 ef build 0 1']
        ks = set([0, 299, 300, 1023, 1024, 1055, 1056, 2047, 2048, 3000, n - 1, n] + [rng.randrange(0, n) for _ in range(12)])
        for k in sorted(ks):
            L.append('q 1 select %d' % k); L.append('q 1 delta %d' % k)
        ps = set([0, u, u - 1] + [xs[k] + d for k in (0, 299, 300, 1024, 1056, 2048, n // 2, n - 1) for d in (-1, 0, 1) if 0 <= xs[k] + d] + [rng.randrange(0, u) for _ in range(12)])
        for p_ in sorted(ps):
            for m in ('rank', 'predecessor', 'successor'): L.append('q 1 %s %d' % (m, p_))
        for k in (0, 1000, 1056, n - 3): L.append('it 1 iter %d %s' % (k, ','.join(['n'] * 40)))
        for v in [xs[0], xs[300], xs[1056], xs[n - 1], xs[n // 2] + 1]: L.append('q 1 binsearch %d' % v)
        cases.append(L)
    # final partial block of 32j+1 ones spanning exactly 65535 / 65536 / 65537 high-bit positions (dense/sparse boundary)
    for span, j in ([(65536, 1)] if tier == 'quick' else [(65535, 1), (65536, 1), (65537, 1), (65536, 3)]):
        u, xs = exact_span_seq(span, j); n = len(xs)
        L = ['case C04-span-%d-%d n=%d' % (span, j, n), 'new 0 efb new %d %d' % (u, n), 'm 0 extend %s' % lst(xs), 'new 1 ef build 0 1']
        for k in (0, 65535, 65536, n - 2, n - 1, n): L.append('q 1 select %d' % k); L.append('q 1 delta %d' % k)
        for p_ in (0, 1, 2, xs[-1] - 1, xs[-1], u): 
            for m_ in ('rank', 'predecessor', 'successor'): L.append('q 1 %s %d' % (m_, p_))
        for k in (n - 1, n - 2, n - 34, 65535): L.append('it 1 iter %d %s' % (k, ','.join(['n'] * 4)))
        L.append('q 1 binsearch %d' % xs[-1]); L.append('q 1 binsearch 1')
        cases.append(L)
    # from_bits entry point
    for ci in range(6 if tier == 'quick' else 30):
        n, v = pick_bits(rng, tier, n=rng.choice([0, 1, 64, 100, 1000, 5000]))
        L = ['case C04-fb-%d' % ci, 'new 0 ef from_bits %s 1' % bits_lit(n, v)]
        L += ef_queries(rng, 0, n, ones_positions(n, v), 4)
        cases.append(L)
    return cases

def int_seq(rng, tier, ci):
    n = rng.choice([1, 2, 5, 63, 64, 65, 100, 511, 512, 513, 700]) if tier == 'quick' else rng.choice([1, 64, 65, 512, 513, 2000, 10000])
    mode = ci % 7
    if mode == 0: sigma = 1
    elif mode == 1: sigma = 2 ** rng.randrange(1, 12)
    elif mode == 2: sigma = 2 ** rng.randrange(1, 12) + rng.choice([-1, 1])
    elif mode == 3: sigma = rng.randrange(2, 50)
    elif mode == 4: sigma = MAXU - 1                      # 64-bit values, max < usize::MAX
    elif mode == 5: sigma = 2 ** rng.randrange(12, 63)
    else: sigma = rng.randrange(2, 300)
    if sigma > 2**20: n = min(n, 130)
    xs = [rng.randrange(0, sigma) for _ in range(n)]
    if mode in (1, 2, 4) and n > 1: xs[rng.randrange(n)] = sigma - 1
    if rng.random() < 0.3 and n > 3:   # skew: few distinct values
        pool = rng.sample(xs, min(3, n)); xs = [rng.choice(pool) for _ in range(n)]
    return xs

def rnd_range(rng, n):
    r = rng.random()
    a = rng.randrange(0, n + 1); b = rng.randrange(0, n + 1)
    if r < 0.6:
        if a > b: a, b = b, a
    elif r < 0.7: b = a                                    # empty
    elif r < 0.8: pass                                     # possibly reversed
    elif r < 0.9: b = n
    else: b = rng.choice([n + 1, n + 5, MAXU])
    return a, b

def gen_C05(rng, tier, want='C05'):
    cases = []
    ncase = 60 if tier == 'quick' else 300
    for ci in range(ncase):
        xs = int_seq(rng, tier, ci)
        n = len(xs)
        backing = ['wmr', 'wmd', 'wmb'][ci % 3]
        if backing == 'wmb' and n > 1000: xs = xs[:1000]; n = 1000
        mx = max(xs)
        width = max(1, (mx + 1).bit_length())
        if ci % 4 == 1 and mx < 2**62:
            w = rng.choice([max(1, mx.bit_length()), max(1, mx.bit_length()) + rng.randrange(0, 3), 64])
            L = ['case %s-%d n=%d max=%d %s' % (want, ci, n, mx, backing), 'new 50 cv new %d' % w, 'm 50 extend %s' % lst(xs), 'new 0 %s from_cv 50' % backing]
        else:
            L = ['case %s-%d n=%d max=%d %s' % (want, ci, n, mx, backing), 'new 0 %s new %s' % (backing, lst(xs))]
        L += ['q 0 len', 'q 0 alph_size', 'q 0 is_empty', 'q 0 alph_width']
        vals = lambda: min(MAXU, rng.choice([rng.choice(xs), rng.choice(xs), rng.randrange(0, mx + 2), mx + 1, 1 << width, (1 << width) + rng.choice(xs), MAXU, 0]))
        if want == 'C05':
            for i in arg_set(rng, [n, n - 1, n + 1], n, 8): L.append('q 0 access %d' % i)
            for _ in range(14):
                p = rng.choice([0, n, n + 1, rng.randrange(0, n + 1), MAXU]); L.append('q 0 rank %d %d' % (p, vals()))
                a, b = rnd_range(rng, n); L.append('q 0 rank_range %d..%d %d' % (a, b, vals()))
                v = vals(); c = xs.count(v)
                k = rng.choice([0, c - 1, c, c + 1, rng.randrange(0, n + 1), n, MAXU]); L.append('q 0 select %d %d' % (max(k, 0), v))
            L.append('it 0 iter - %s' % ','.join(['n'] * min(n + 2, 40)))
            if n <= 3000: L.append('q 0 ser')
            L.append('q 0 size_in_bytes')
        else:
            for _ in range(14):
                a, b = rnd_range(rng, n)
                k = min(MAXU, rng.choice([0, 1, max(0, b - a - 1), max(0, b - a), b - a + 1 if b >= a else 0, rng.randrange(0, n + 1), MAXU]))
                L.append('q 0 quantile %d..%d %d' % (a, b, max(k, 0)))
            for _ in range(10):
                m = rng.randrange(0, 7)
                rs = []
                for _ in range(m):
                    a, b = rnd_range(rng, n)
                    if b > n and rng.random() < 0.7: b = n
                    if rs and rng.random() < 0.25: a, b = rs[-1]          # identical
                    rs.append((a, b))
                if rng.random() < 0.15:
                    # an empty or reversed range that ends beyond n is still a range ending beyond n
                    rs.insert(rng.randrange(0, len(rs) + 1), rng.choice([(n + 1, n + 1), (n + 9, n + 3), (n + 2, n + 2), (MAXU, MAXU)])); m = len(rs)
                k = rng.choice([0, 0, 1, max(0, m - 1), m, m + 1, MAXU])
                L.append('q 0 intersect %s %d' % (','.join('%d..%d' % r for r in rs) if rs else '-', k))
        cases.append(L)
    # a long sequence over a DArray backing: layers of > 65536 bits with sparse and dense 1024-blocks of ones and of zeros
    n = 140000 + rng.randrange(0, 500)
    xs = [0] * n
    for i in range(0, 1500): xs[i] = 1 + (i % 3)                    # a dense start
    for i in range(0, 1200): xs[1500 + i * 100] = 3                 # ones 100 apart: 1024 of them span > 65536
    for i in range(n - 2500, n): xs[i] = 2 + (i % 2)                # a dense end
    L = ['case %s-big-wmd n=%d' % (want, n), 'new 0 wmd new %s' % lst(xs), 'q 0 len', 'q 0 alph_size']
    pos = sorted(set([0, 1499, 1500, 1600, 121400, 121500, n - 2501, n - 2500, n - 1, n] + [rng.randrange(0, n + 1) for _ in range(12)]))
    if want == 'C05':
        for p_ in pos:
            L.append('q 0 access %d' % p_)
            for v in (0, 1, 2, 3): L.append('q 0 rank %d %d' % (p_, v))
        for v, cnt_ in ((0, xs.count(0)), (1, xs.count(1)), (2, xs.count(2)), (3, xs.count(3))):
            for k in sorted(set([0, 1, 499, 500, 1023, 1024, 1025, 1700, 2047, 2048, cnt_ - 1, cnt_] + [rng.randrange(0, cnt_ + 1) for _ in range(6)])): L.append('q 0 select %d %d' % (k, v))
        L.append('q 0 rank_range 1400..%d 3' % (n - 100))
    else:
        for a, b in ((0, 2500), (1000, 3000), (1499, 1501), (120000, 122000), (n - 3000, n)):
            for k in (0, 1, (b - a) // 2, b - a - 1, b - a): L.append('q 0 quantile %d..%d %d' % (a, b, k))
        L.append('q 0 intersect 0..700,121000..121700 1'); L.append('q 0 intersect 1000..1700,1500..2400,%d..%d 2' % (n - 600, n))
    cases.append(L)
    for span in ([65536] if tier == 'quick' else [65535, 65536, 65537]):
        n = 70000; xs = [rng.randrange(0, 2) for _ in range(n)]
        for i in range(1000, 1032): xs[i] = 2
        xs[1000 + span] = 2
        L = ['case %s-span-wmd-%d n=%d' % (want, span, n), 'new 0 wmd new %s' % lst(xs), 'q 0 len']
        if want == 'C05':
            for k in (0, 1, 31, 32, 33): L.append('q 0 select %d 2' % k)
            for p_ in (1000, 1031, 1032, 1000 + span, 1001 + span, n): L.append('q 0 rank %d 2' % p_); L.append('q 0 access %d' % min(p_, n - 1))
        else:
            L.append('q 0 quantile 1000..%d %d' % (1001 + span, span)); L.append('q 0 quantile 990..1040 49'); L.append('q 0 intersect 1000..1032,%d..%d 1' % (999 + span, 1002 + span))
        cases.append(L)
    for b in ('wmr', 'wmd', 'wmb'):     # the empty sequence is rejected
        cases.append(['case %s-empty-%s' % (want, b), 'new 0 %s new -' % b, 'q 0 len', 'new 1 cv new 5', 'new 2 %s from_cv 1' % b, 'q 2 len'])
    return cases

def gen_C06(rng, tier): return gen_C05(rng, tier, 'C06')

BV_READS = ['len', 'get_bit', 'get_bits', 'get_word64', 'rank1', 'rank0', 'select1', 'select0',
            'predecessor1', 'predecessor0', 'successor1', 'successor0', 'num_ones', 'words']

def bv_read(rng, oid, n):
    m = rng.choice(BV_READS)
    pos = rng.choice([0, 1, 63, 64, 65, max(0, n - 1), n, n + 1, rng.randrange(0, n + 2), 2**63, MAXU - 1, MAXU, max(0, n - 64), max(0, n - 65)])
    if m in ('len', 'num_ones', 'words'): return 'q %d %s' % (oid, m)
    if m == 'get_bits':
        l = rng.choice([0, 1, 2, 7, 31, 63, 64, 65, rng.randrange(0, 66)])
        return 'q %d get_bits %d %d' % (oid, pos, l)
    return 'q %d %s %d' % (oid, m, pos)

def bv_mut(rng, oid, n):
    m = rng.choice(['push_bit', 'push_bits', 'push_bits', 'set_bit', 'set_bits', 'set_bits', 'extend', 'shrink'])
    if m == 'shrink': return 'm %d shrink_to_fit' % oid, n
    if m == 'push_bit': return 'm %d push_bit %d' % (oid, rng.randrange(2)), n + 1
    if m == 'push_bits':
        l = rng.choice([0, 1, 5, 63, 64, 65, rng.randrange(0, 66)])
        bits = rng.getrandbits(64) if rng.random() < 0.8 else rng.getrandbits(max(min(l, 64), 1))   # garbage above the chunk length
        return 'm %d push_bits %d %d' % (oid, bits, l), n + (l if l <= 64 else 0)
    pos = rng.choice([0, 1, 63, 64, max(0, n - 1), n, n + 1, rng.randrange(0, n + 2), max(0, n - 64), max(0, n - 63), MAXU, MAXU - 63, 2**63])
    if m == 'set_bit': return 'm %d set_bit %d %d' % (oid, pos, rng.randrange(2)), n
    if m == 'set_bits':
        l = rng.choice([0, 1, 5, 63, 64, 65, rng.randrange(0, 66)])
        return 'm %d set_bits %d %d %d' % (oid, pos, rng.getrandbits(64), l), n
    k = rng.choice([0, 1, 63, 64, 65, 130])
    # one in three through an iterator with another legal size hint (loose upper bound, no upper bound, exact)
    hint = rng.choice(['', '', ' h0:none', ' h0:%d' % rng.choice([k, k + 1, 2**32, 2**62, MAXU - 1, MAXU]), ' h%d:%d' % (k, rng.choice([k, 2**40, MAXU]))])
    return 'm %d extend %s%s' % (oid, bits_lit(k, rng.getrandbits(k) if k else 0), hint), n + k

def gen_C07(rng, tier):
    cases = []
    ncase = 120 if tier == 'quick' else 800
    for ci in range(ncase):
        L = ['case C07-%d' % ci]
        c = rng.random()
        if c < 0.3: L.append('new 0 bv new'); n = 0
        elif c < 0.6:
            n = rng.choice([0, 1, 63, 64, 65, 128, 200, rng.randrange(0, 1000)]); L.append('new 0 bv from_bit %d %d' % (rng.randrange(2), n))
        else:
            n, v = pick_bits(rng, tier, n=rng.choice([0, 1, 63, 64, 65, 127, 128, 129, rng.randrange(0, 1000)]))
            L.append('new 0 bv %s %s%s' % ('from_bits', bits_lit(n, v), rng.choice(['', '', ' h0:none', ' h0:%d' % rng.choice([2**62, MAXU]), ' h%d:%d' % (n, n)])) if rng.random() < 0.8 else 'new 0 bv build %s 1 1 1' % bits_lit(n, v))
        L.append('q 0 words')
        for _ in range(rng.randrange(5, 40)):
            if rng.random() < 0.45:
                l, n = bv_mut(rng, 0, n); L.append(l); L.append('q 0 words')
            else: L.append(bv_read(rng, 0, n))
        L.append('it 0 iter - %s' % ','.join(['n'] * min(n + 2, 30)))
        # a second history producing the same bits must compare equal
        if ci % 3 == 0:
            L.append('new 1 bv new')
            L.append('new 2 bv clone 0')
            L.append('eq 0 2')
            L.append('m 2 push_bit 1'); L.append('eq 0 2')
        cases.append(L)
    # canonical equality across histories: build the same content in two ways
    for ci in range(20 if tier == 'quick' else 100):
        n = rng.choice([1, 63, 64, 65, 100, 128, 129, 300]); v = rng.getrandbits(n)
        L = ['case C07-eq-%d' % ci, 'new 0 bv from_bits %s' % bits_lit(n, v), 'new 1 bv from_bit %d %d' % (rng.randrange(2), n)]
        p = 0
        while p < n:
            l = min(rng.choice([1, 7, 64, 33]), n - p)
            L.append('m 1 set_bits %d %d %d' % (p, ((v >> p) & ((1 << l) - 1)) | (rng.getrandbits(64) << l & MAXU), l)); p += l
        L.append('eq 0 1'); L.append('q 1 words')
        L.append('new 2 bv new'); p = 0
        while p < n:
            l = min(rng.choice([1, 7, 64, 33]), n - p)
            L.append('m 2 push_bits %d %d' % (((v >> p) & ((1 << l) - 1)) | ((rng.getrandbits(64) << l) & MAXU), l)); p += l
        L.append('eq 0 2'); L.append('eq 1 2')
        if n > 1:
            L.append('m 2 set_bit %d %d' % (rng.randrange(n), rng.randrange(2))); L.append('eq 0 2')
        # equality is list equality: the same words with another length, the same length with other bits, are different vectors
        k = rng.choice([1, 2, 63, 64])
        L += ['new 3 bv from_bits %s' % bits_lit(n + k, v), 'eq 0 3', 'new 4 bv from_bits %s' % bits_lit(n, v), 'm 4 push_bit 0', 'eq 0 4', 'eq 3 4' ]
        cases.append(L)
    # scans across tens of thousands of words without a hit (a scan must not cost stack or time per word beyond a loop step)
    n = 12000000 + rng.randrange(0, 64)
    L = ['case C07-long-scans n=%d' % n, 'new 0 bv from_bit 0 %d' % n, 'm 0 set_bit 5 1', 'm 0 set_bit %d 1' % (n - 1),
         'q 0 successor1 6', 'q 0 predecessor1 %d' % (n - 2), 'q 0 successor1 0', 'q 0 select1 1', 'q 0 select1 2', 'q 0 rank1 %d' % n, 'q 0 successor0 0', 'q 0 select0 %d' % (n - 3),
         'new 1 bv from_bit 1 %d' % n, 'm 1 set_bit 7 0', 'm 1 set_bit %d 0' % (n - 2),
         'q 1 successor0 8', 'q 1 predecessor0 %d' % (n - 3), 'q 1 select0 1', 'q 1 select0 2', 'q 1 rank0 %d' % n, 'q 1 predecessor1 %d' % (n - 1), 'q 1 select1 %d' % (n - 3),
         'new 2 bv from_bit 0 %d' % n, 'q 2 successor1 0', 'q 2 predecessor1 %d' % (n - 1), 'q 2 select1 0', 'q 2 select0 %d' % (n - 1)]
    cases.append(L)
    return cases

def gen_C07_exhaustive():
    """every history of ≤ 3 operations from a 9-operation alphabet on vectors around the 64-bit boundary"""
    ops = ['m 0 push_bit 1', 'm 0 push_bits 18446744073709551615 3', 'm 0 push_bits 5 64', 'm 0 push_bits 1 65',
           'm 0 set_bit 63 0', 'm 0 set_bits 62 18446744073709551615 4', 'm 0 set_bits 0 0 64',
           'm 0 extend 2:1', 'm 0 set_bits 18446744073709551615 1 1']
    reads = ['q 0 words', 'q 0 len', 'q 0 get_bits 60 8', 'q 0 get_word64 63', 'q 0 select0 0', 'q 0 successor0 62', 'q 0 predecessor1 64', 'q 0 rank1 65']
    cases = []
    for start in ('new 0 bv from_bit 1 62', 'new 0 bv from_bit 0 64', 'new 0 bv from_bit 1 66'):
        for a in ops:
            for b in ops:
                for c in ops:
                    cases.append(['case C07-ex', start, a, b, c] + reads)
    return cases

def structure_zoo(rng, tier, small=False):
    """one instance of every serializable structure (id → kind); sizes from empty to multi-thousand"""
    L = []; kinds = {}
    def nbits():
        return rng.choice([0, 1, 64, 65, 200]) if small else rng.choice([0, 1, 64, 65, 513, 3000, 9000, rng.randrange(0, 20000)])
    def seq():
        k = rng.choice([0, 1, 2, 5]) if small else rng.choice([0, 1, 5, 100, 3000])
        hi = rng.choice([1, 2, 256, 257, 70000, 2**40, MAXU])
        return [rng.randrange(0, hi) for _ in range(k)]
    n, v = pick_bits(rng, tier, n=nbits()); L.append('new 0 bv from_bits %s' % bits_lit(n, v)); kinds[0] = 'bv'
    n, v = pick_bits(rng, tier, n=nbits()); L.append('new 1 r9 new %s %d %d' % (bits_lit(n, v), rng.randrange(2), rng.randrange(2))); kinds[1] = 'r9'
    n, v = pick_bits(rng, tier, n=nbits())
    if not small and rng.random() < 0.5:
        n = 70000 + rng.randrange(0, 64); v = 1 | (1 << (n - 1)) | (rng.getrandbits(3) << 40000)
        if rng.random() < 0.4:
            # the final partial block holds 32j+1 positions whose ends are exactly 65535 / 65536 apart: the largest offset a
            # dense block can store (it equals the filler value of the sub-block table), and the first one it cannot
            j = rng.choice([1, 1, 2, 7]); span = rng.choice([65535, 65535, 65536, 65534]); base = rng.choice([0, 1024, 2048])
            n = base + span + 1 + rng.randrange(0, 3)
            v = ((1 << base) - 1) | (((1 << (32 * j)) - 1) << base) | (1 << (base + span))
        if rng.random() < 0.5: v = ((1 << n) - 1) ^ v
    L.append('new 2 da new %s %d %d' % (bits_lit(n, v), rng.randrange(2), rng.randrange(2))); kinds[2] = 'da'
    n, v = pick_bits(rng, tier, n=nbits()); L.append('new 3 sa new %s %d' % (bits_lit(n, v), rng.randrange(2))); kinds[3] = 'sa'
    u, cap, xs = mono_seq(rng, tier, rng.randrange(100))
    if small: xs = xs[:6]
    L += ['new 20 efb new %d %d' % (u, cap), 'm 20 extend %s' % lst(xs), 'new 4 ef build 20 %d' % rng.randrange(2)]; kinds[4] = 'ef'
    s = seq()
    c = rng.random()
    if c < 0.6: L.append('new 5 cv from_slice %s' % lst(s))
    elif c < 0.8: L.append('new 5 cv from_int %d %d %d' % (rng.randrange(0, 8), rng.choice([0, 3, 100]), rng.choice([3, 17, 64])))
    else: L.append('new 5 cv new %d' % rng.choice([1, 13, 64]))
    kinds[5] = 'cv'
    L.append('new 6 db from_slice %s' % lst(seq())); kinds[6] = 'db'
    L.append('new 7 do from_slice %s %s' % (rng.choice(['none', '1', '2', '3', '64']), lst(seq()))); kinds[7] = 'do'
    s = [x % 2**50 for x in seq()] or [rng.randrange(0, 9)]
    L.append('new 8 ps from_slice %s' % lst(s)); kinds[8] = 'ps'
    for oid, b in ((9, 'wmr'), (10, 'wmd'), (11, 'wmb')):
        s = [x % 2**63 for x in seq()][:300 if b == 'wmb' else 3000] or [rng.randrange(0, 9)]
        L.append('new %d %s new %s' % (oid, b, lst(s))); kinds[oid] = b
    return L, kinds

PROBES = {
    'bv': ['q %d len', 'q %d rank1 5', 'q %d select1 0', 'q %d get_bits 0 1'],
    'r9': ['q %d num_ones', 'q %d rank1 64', 'q %d select1 3', 'q %d select0 1'],
    'da': ['q %d num_ones', 'q %d select1 2', 'q %d access 1'],
    'sa': ['q %d num_ones', 'q %d select1 1', 'q %d access 0'],
    'ef': ['q %d len', 'q %d select 0', 'q %d delta 1', 'q %d binsearch 3'],
    'cv': ['q %d len', 'q %d width', 'q %d get_int 0', 'q %d get_int 2'],
    'db': ['q %d len', 'q %d access 0', 'q %d num_levels'],
    'do': ['q %d len', 'q %d access 0', 'q %d widths'],
    'ps': ['q %d len', 'q %d sum', 'q %d access 0'],
    'wmr': ['q %d len', 'q %d access 0', 'q %d rank 1 0', 'q %d select 0 0'],
    'wmd': ['q %d len', 'q %d access 0', 'q %d rank 1 0', 'q %d select 0 0'],
    'wmb': ['q %d len', 'q %d access 0', 'q %d rank 1 0', 'q %d select 0 0'],
}

def prim_lines(rng):
    L = []
    for ty, hi in (('u8', 256), ('u16', 65536), ('u32', 2**32), ('u64', 2**64), ('usize', 2**64)):
        for v in (0, 1, hi - 1, rng.randrange(hi)): L.append('prim %s %d' % (ty, v))
    for ty, b in (('i8', 8), ('i16', 16), ('i32', 32), ('i64', 64), ('isize', 64)):
        for v in (0, -1, 2**(b - 1) - 1, -2**(b - 1), rng.randrange(-2**(b - 1), 2**(b - 1))): L.append('prim %s %d' % (ty, v))
    L += ['prim bool 0', 'prim bool 1', 'prim vec_u16 -', 'prim vec_u16 1,65535,7', 'prim vec_usize -',
          'prim vec_usize %s' % lst([rng.getrandbits(64) for _ in range(rng.randrange(1, 40))]),
          'prim vec_i64 -1,0,9223372036854775807,-9223372036854775808', 'prim opt_usize none', 'prim opt_usize %d' % rng.getrandbits(64),
          'prim vec_opt_bool -', 'prim vec_opt_bool 1,n,0,n,n,1', 'prim opt_vec_usize none', 'prim opt_vec_usize -', 'prim opt_vec_usize 1,2,3',
          'prim vec_vec_u8 /', 'prim vec_vec_u8 1,2/255/0,0,0']
    return L

def gen_C08(rng, tier):
    cases = []
    ncase = 25 if tier == 'quick' else 150
    order = [0, 1, 2, 3, 4, 5, 6, 7, 8, 9, 10, 11, 0]
    for ci in range(ncase):
        L = ['case C08-%d' % ci]
        zoo, kinds = structure_zoo(rng, tier, small=(ci % 3 == 0))
        L += zoo
        for oid, k in kinds.items():
            L.append('q %d ser' % oid)
            L.append('q %d rt %d' % (oid, rng.choice([0, 1, 9])))
            # the same bytes through a reader that hands them out in pieces (BufReader / chained readers do this)
            L.append('q %d sched %s' % (oid, rng.choice(['c1', 'c3', 'c5,c2', 'c7,c1', 'c%d' % rng.randrange(1, 17), ','.join(['c3'] + ['i'] * 80)])))
            L.append('new %d %s deser %d' % (100 + oid, k, oid))
            L.append('eq %d %d' % (oid, 100 + oid))
            for p in PROBES[k]:
                L.append(p % oid); L.append(p % (100 + oid))
        for i in range(12): L.append('rt2 %d %d' % (order[i], order[i + 1]))
        cases.append(L)
    cases.append(['case C08-prim'] + prim_lines(rng))
    return cases

def cv_hist(rng, ci):
    L = []
    w = rng.choice([1, 2, 3, 7, 8, 13, 31, 32, 33, 63, 64, rng.randrange(1, 65)])
    c = rng.random()
    if c < 0.35: L.append('new 0 cv new %d' % w); n = 0
    elif c < 0.5: L.append('new 0 cv with_capacity %d %d' % (rng.randrange(0, 50), w)); n = 0
    elif c < 0.7:
        n = rng.choice([0, 1, 5, 64, 65]); val = rng.choice([0, 1, (1 << w) - 1, rng.getrandbits(w)])
        L.append('new 0 cv from_int %d %d %d' % (val, n, w))
    else:
        n = rng.choice([1, 2, 64, 65, 100]); mx = rng.choice([0, 1, 2, 255, 256, 2**63, MAXU, rng.getrandbits(rng.randrange(1, 65))])
        xs = [rng.randrange(0, mx + 1) for _ in range(n)]; xs[rng.randrange(n)] = mx
        L.append('new 0 cv %s %s' % (rng.choice(['from_slice', 'from_slice', 'build']), lst(xs))); w = max(1, mx.bit_length())
    def val():
        return rng.choice([0, 1, (1 << w) - 1, (1 << w) - 1, 1 << w if w < 64 else MAXU, (1 << w) + 1 if w < 63 else MAXU, rng.getrandbits(w), rng.getrandbits(64), MAXU])
    for _ in range(rng.randrange(5, 40)):
        r = rng.random()
        if r < 0.3:
            v = val(); L.append('m 0 push_int %d' % v)
            if w == 64 or v < (1 << w): n += 1
        elif r < 0.45:
            p = rng.choice([0, max(0, n - 1), n, n + 1, rng.randrange(0, n + 2), MAXU, 2**63]); L.append('m 0 set_int %d %d' % (p, val()))
        elif r < 0.55:
            vs = [val() if rng.random() < 0.15 else rng.getrandbits(w) for _ in range(rng.randrange(0, 8))]
            L.append('m 0 extend %s' % lst(vs))
            for v in vs:
                if w == 64 or v < (1 << w): n += 1
                else: break
        else:
            p = rng.choice([0, 1, max(0, n - 1), n, n + 1, rng.randrange(0, n + 2), 2**63, 2**62, 2**58, 2**57 + 1, MAXU // max(w, 1), MAXU // max(w, 1) + 1, MAXU - 1, MAXU])
            L.append('q 0 %s %d' % (rng.choice(['get_int', 'get_int', 'access']), min(p, MAXU)))
        if rng.random() < 0.1: L += ['q 0 len', 'q 0 width']
    L += ['q 0 len', 'q 0 width', 'q 0 num_vals', 'q 0 is_empty', 'it 0 iter - %s' % ','.join(['n'] * min(n + 2, 40)), 'q 0 ser', 'q 0 size_in_bytes']
    return L

def gen_C09(rng, tier):
    cases = []
    for ci in range(150 if tier == 'quick' else 900):
        cases.append(['case C09-%d' % ci] + cv_hist(rng, ci))
    for ci in range(6):
        xs = [rng.getrandbits(8) for _ in range(rng.choice([0, 1, 70]))]; ys = [rng.getrandbits(32) for _ in range(rng.choice([1, 70]))]
        cases.append(['case C09-types-%d' % ci, 'new 0 cv from_slice_u8 %s' % lst(xs), 'q 0 len', 'q 0 width', 'q 0 get_int 0',
                      'new 1 cv from_slice_u32 %s' % lst(ys), 'q 1 len', 'q 1 width', 'q 1 get_int %d' % (len(ys) - 1), 'm 1 push_int 4294967296'])
    # malformed stream: widths 0/65, uncastable, empty from_slice
    L = ['case C09-malformed']
    for w in (0, 65, 66, MAXU):
        L += ['new 0 cv new %d' % w, 'new 0 cv with_capacity 3 %d' % w, 'new 0 cv from_int 0 3 %d' % w]
    L += ['new 0 cv from_int 8 3 3', 'new 0 cv from_int 7 3 3', 'q 0 get_int 2', 'q 0 get_int 3',
          'new 1 cv from_slice -', 'q 1 len', 'q 1 get_int 0', 'q 1 get_int 7', 'q 1 get_int %d' % MAXU, 'it 1 iter - n,n',
          'new 2 cv from_slice_i64 1,-2,3', 'new 3 cv default', 'q 3 get_int 0', 'q 3 len',
          'new 4 cv from_slice 1,2,3', 'new 5 cv new 2', 'm 5 extend 1,2,3', 'eq 4 5', 'm 5 set_int 0 0', 'eq 4 5']
    cases.append(L)
    return cases

def dac_vals(rng, tier, ci):
    xs = dac_vals0(rng, tier, ci)
    if xs and ci % 3 == 1:
        # the maximum is a boundary value with few bits set (an exact power of two, one less, one more): level-width
        # boundaries 2^(8j), and single high bits that a smear-based msb has to carry all the way down
        k = rng.choice([8, 8, 16, 24, 32, 32, 40, 48, 56, 63, rng.randrange(1, 64), rng.randrange(32, 64)])
        B = rng.choice([1 << k, 1 << k, (1 << k) - 1, (1 << k) + 1, (1 << k) | rng.getrandbits(min(k, 12))])
        xs = [x % (B + 1) for x in xs]
        if ci % 2: xs = [x & 0xff for x in xs]        # … over an otherwise small population
        xs[rng.randrange(len(xs))] = B
    return xs

def dac_vals0(rng, tier, ci):
    n = rng.choice([0, 1, 2, 10, 100, 600, 1500]) if tier == 'quick' else rng.choice([0, 1, 100, 1000, 5000])
    mode = ci % 8
    if mode == 0: return [0] * n
    if mode == 1: return [rng.choice([0, 1])] * n if n else []
    if mode == 2: return [rng.getrandbits(64) for _ in range(n)]
    if mode == 3:   # geometric bit lengths
        return [rng.getrandbits(min(64, 1 + int(rng.expovariate(0.25)))) for _ in range(n)]
    if mode == 4:   # two populations
        a, b = rng.randrange(1, 20), rng.randrange(20, 65)
        return [rng.getrandbits(a if rng.random() < 0.9 else b) for _ in range(n)]
    if mode == 5:   # every byte length
        return [rng.getrandbits(8 * rng.randrange(1, 9)) for _ in range(n)]
    if mode == 6: return [MAXU] * min(n, 50) + [0] * min(n, 50)
    mb = rng.randrange(1, 15)
    return [rng.getrandbits(rng.randrange(1, mb + 1)) for _ in range(n)]

def gen_C10(rng, tier, prop='C10'):
    cases = []
    ncase = 120 if tier == 'quick' else 700
    for ci in range(ncase):
        xs = dac_vals(rng, tier, ci); n = len(xs)
        lim = rng.choice(['none', '1', '2', '3', '4', '8', '63', '64', str(rng.randrange(1, 65))])
        L = ['case %s-%d n=%d L=%s' % (prop, ci, n, lim), 'new 0 do from_slice %s %s' % (lim, lst(xs))]
        L += ['q 0 len', 'q 0 num_levels', 'q 0 widths', 'q 0 num_vals', 'q 0 is_empty']
        if xs and max(xs).bit_length() <= 12: L.append('q 0 brute_cost')
        if prop == 'C10':
            for i in arg_set(rng, [n, n - 1, n + 1], n, 12): L.append('q 0 access %d' % i)
            L.append('it 0 iter - %s' % ','.join(['n'] * min(n + 2, 60)))
            if n <= 1500: L.append('q 0 ser')
            L.append('q 0 size_in_bytes')
        cases.append(L)
    # the maximum is a single bit / all ones below a bit, for every bit position
    for k in range(0, 64, 1 if tier != 'quick' else 3):
        for B in ((1 << k), (1 << (k + 1)) - 1):
            xs = [rng.getrandbits(rng.choice([1, 4, 7])) & B for _ in range(rng.choice([1, 6, 30]))]; xs[rng.randrange(len(xs))] = B; n = len(xs)
            L = ['case %s-onebit-%d' % (prop, B), 'new 0 do from_slice %s %s' % (rng.choice(['none', '2', '3', '8']), lst(xs)), 'q 0 num_levels', 'q 0 widths']
            if prop == 'C10': L += ['q 0 access %d' % i for i in range(n + 1)] + ['it 0 iter - %s' % ','.join(['n'] * (n + 1))]
            cases.append(L)
    if prop == 'C10':
        L = ['case C10-limits']
        xs = [rng.getrandbits(rng.randrange(1, 65)) for _ in range(200)]
        for lim in list(range(0, 67)) + [MAXU]:
            L += ['new 0 do from_slice %d %s' % (lim, lst(xs)), 'q 0 num_levels', 'q 0 widths', 'q 0 access 199']
        L += ['new 1 do from_slice_i64 none 1,-1', 'new 2 do default', 'q 2 len', 'q 2 access 0', 'new 3 do build 1,2,300', 'q 3 widths',
              'new 4 do from_slice 0 -', 'new 4 do from_slice 65 -', 'new 4 do from_slice 3 -', 'q 4 len', 'q 4 num_levels', 'q 4 access 0']
        cases.append(L)
    return cases

def gen_C18(rng, tier): return gen_C10(rng, tier, 'C18')

def gen_C11(rng, tier):
    cases = []
    for ci in range(100 if tier == 'quick' else 600):
        xs = dac_vals(rng, tier, ci)
        if ci % 9 == 0: xs = [rng.getrandbits(8 * rng.randrange(1, 9)) for _ in range(3000)]
        n = len(xs)
        L = ['case C11-%d n=%d' % (ci, n), 'new 0 db %s %s' % (rng.choice(['from_slice', 'from_slice', 'build']), lst(xs))]
        L += ['q 0 len', 'q 0 num_levels', 'q 0 widths', 'q 0 num_vals', 'q 0 is_empty']
        for i in arg_set(rng, [n, n - 1, n + 1], n, 14): L.append('q 0 access %d' % i)
        L.append('it 0 iter - %s' % ','.join(['n'] * min(n + 2, 60)))
        if n <= 1500: L.append('q 0 ser')
        L.append('q 0 size_in_bytes')
        cases.append(L)
    for ci in range(6):
        xs = [rng.getrandbits(8) for _ in range(rng.choice([0, 1, 70]))]; ys = [rng.getrandbits(32) for _ in range(rng.choice([1, 70]))]
        cases.append(['case C11-types-%d' % ci, 'new 0 db from_slice_u8 %s' % lst(xs), 'q 0 len', 'q 0 num_levels', 'q 0 access 0', 'q 0 access %d' % len(xs),
                      'new 1 db from_slice_u32 %s' % lst(ys), 'q 1 len', 'q 1 num_levels', 'q 1 access 0', 'q 1 access %d' % (len(ys) - 1)])
    # the maximum sits exactly on / next to a level boundary 2^(8j)
    for j in range(1, 9):
        for B in ((1 << 8 * j) - 1, min(MAXU, 1 << 8 * j), min(MAXU, (1 << 8 * j) + 1)):
            xs = [rng.getrandbits(rng.choice([3, 8])) for _ in range(rng.choice([1, 5, 40]))]; xs[rng.randrange(len(xs))] = B; n = len(xs)
            cases.append(['case C11-boundary-%d' % B, 'new 0 db from_slice %s' % lst(xs), 'q 0 num_levels', 'q 0 widths'] + ['q 0 access %d' % i for i in range(n + 1)] + ['it 0 iter - %s' % ','.join(['n'] * (n + 1)), 'q 0 size_in_bytes'])
    cases.append(['case C11-misc', 'new 0 db default', 'q 0 len', 'q 0 num_levels', 'q 0 access 0', 'new 1 db from_slice_i64 3,-1', 'new 2 db from_slice -', 'q 2 len', 'q 2 num_levels', 'eq 0 2'])
    return cases

def gen_C12(rng, tier):
    cases = []
    for ci in range(120 if tier == 'quick' else 700):
        n = rng.choice([1, 2, 3, 64, 65, 200, 1000]) if tier == 'quick' else rng.choice([1, 64, 65, 500, 5000])
        mode = ci % 6
        if mode == 0:   # low width w: sum ≈ n * 2^w
            w = (ci // 6) % 63; per = (1 << w)
            xs = [rng.randrange(0, 2 * per) for _ in range(n)]
        elif mode == 1: xs = [0] * n
        elif mode == 2: xs = [0] * (n - 1) + [rng.choice([MAXU - 1, 2**63, 2**40])]
        elif mode == 3: xs = [rng.choice([0, 0, 0, 1, 5]) for _ in range(n)]
        elif mode == 4: xs = [rng.getrandbits(rng.randrange(1, 50)) for _ in range(n)]
        else: xs = [rng.choice([MAXU - 1, 2**62])] + [0] * (n - 1)
        while sum(xs) >= MAXU:   # representable sum only
            xs = [x // 2 for x in xs]
        L = ['case C12-%d n=%d sum=%d' % (ci, n, sum(xs)), 'new 0 ps %s %s' % (rng.choice(['from_slice', 'from_slice', 'build']), lst(xs))]
        L += ['q 0 len', 'q 0 sum', 'q 0 num_vals', 'q 0 is_empty']
        for i in arg_set(rng, [n, n - 1, n + 1], n, 12): L.append('q 0 access %d' % i)
        L.append('it 0 iter - %s' % ','.join(['n'] * min(n + 2, 70)))
        L.append('q 0 ser'); L.append('q 0 size_in_bytes')
        cases.append(L)
    for bi, (n, big, at) in enumerate([(70000, 2**40, 1200), (100000, 2**44, 50000)] if tier == 'quick' else [(70000, 2**40, 1200), (100000, 2**44, 50000), (200000, 2**50, 300)]):
        xs = [rng.choice([1, 1, 1, 2, 0]) for _ in range(n)]; xs[at] = big
        L = ['case C12-big-%d n=%d' % (bi, n), 'new 0 ps from_slice %s' % lst(xs), 'q 0 len', 'q 0 sum']
        for i in sorted(set([0, at - 1, at, at + 1, at + 1023, at + 1024, at + 2048, 1023, 1024, 42211 % n, n - 1, n] + [rng.randrange(0, n) for _ in range(25)])): L.append('q 0 access %d' % i)
        L.append('q 0 size_in_bytes')
        cases.append(L)
    for span, j in ([(65536, 1)] if tier == 'quick' else [(65535, 1), (65536, 1), (65537, 1), (65536, 2)]):
        u, ps = exact_span_seq(span, j); n = len(ps)
        xs = [ps[0]] + [ps[i] - ps[i - 1] for i in range(1, n)]
        L = ['case C12-span-%d-%d n=%d' % (span, j, n), 'new 0 ps from_slice %s' % lst(xs), 'q 0 len', 'q 0 sum']
        for i in (0, 65535, 65536, 65537, n - 3, n - 2, n - 1, n): L.append('q 0 access %d' % i)
        cases.append(L)
    for ci in range(4):
        xs = [rng.getrandbits(8) for _ in range(rng.choice([1, 70]))]; ys = [rng.getrandbits(32) for _ in range(rng.choice([1, 70]))]
        cases.append(['case C12-types-%d' % ci, 'new 0 ps from_slice_u8 %s' % lst(xs), 'q 0 len', 'q 0 sum', 'q 0 access 0',
                      'new 1 ps from_slice_u32 %s' % lst(ys), 'q 1 len', 'q 1 sum', 'q 1 access %d' % (len(ys) - 1)])
    cases.append(['case C12-misc', 'new 0 ps from_slice -', 'new 1 ps from_slice_i64 1,-1', 'new 2 ps from_slice 0', 'q 2 len', 'q 2 sum', 'q 2 access 0', 'q 2 access 1'])
    return cases

def gen_C13(rng, tier):
    cases = []
    # long bursts of `Interrupted` at one position are still transient: any bounded retry count is a defect
    scheds = ['c1', 'c1,i', 'c2,i,c1,c3', 'i,i,c3', 'c7,c1,i', 'c%d' % rng.randrange(1, 9)]
    bursts = [','.join(['i'] * 70 + ['c5']), ','.join(['c9'] + ['i'] * 1100 + ['c2'])]     # costly per transfer: used with few offsets only
    for ci in range(16 if tier == 'quick' else 80):
        L = ['case C13-%d' % ci]
        zoo, kinds = structure_zoo(rng, tier, small=(ci % 2 == 0))
        L += zoo
        for oid, k in kinds.items():
            L.append('q %d trunc all' % oid) if ci % 2 == 0 else L.append('q %d trunc %s' % (oid, lst(sorted(rng.sample(range(0, 200000), 60)) + list(range(0, 40)))))
            L.append('q %d sched %s' % (oid, rng.choice(scheds)))
            L.append('q %d wfail %s %s' % (oid, 'all' if ci % 2 == 0 else lst(list(range(0, 30)) + sorted(rng.sample(range(0, 200000), 40))), rng.choice(['-'] + scheds)))
            if ci % 4 == 1 or (ci % 2 == 0 and oid % 3 == ci % 3):
                L.append('q %d sched %s' % (oid, bursts[0]))
                L.append('q %d wfail %s %s' % (oid, lst([0, 1, 8, 9, 17, 40, 10**7]), rng.choice(bursts)))
        cases.append(L)
    n = 600000 + rng.randrange(0, 64); v = rand_bits(rng, n, 0.3)
    L = ['case C13-large-interrupted', 'new 0 bv from_bits %s' % bits_lit(n, v), 'new 1 cv from_int 5 70000 9']
    for oid in (0, 1):
        L.append('q %d wfail %s i,c70000' % (oid, lst([0, 8, 65536, 65544, 70000, 74000, 80000, 10**7])))
        L.append('q %d wfail %s c65536,i' % (oid, lst([65535, 65536, 65537, 131072, 10**7])))
        L.append('q %d sched i,c65536' % oid); L.append('q %d trunc %s' % (oid, lst([0, 7, 8, 65536, 65544, 74999, 75000])))
    cases.append(L)
    return cases

def sem_lines(rng, tier):
    """the operations of the translated Rust subset on boundary operands (compared with RustSem.lean in every build)"""
    vals = [0, 1, 2, 7, 8, 9, 63, 64, 65, 255, 256, 65535, 65536, 2**32 - 1, 2**32, 2**62, 2**63 - 1, 2**63, 2**63 + 1, MAXU - 1, MAXU]
    vals += [rng.getrandbits(rng.randrange(1, 65)) for _ in range(12 if tier == 'quick' else 60)]
    un = ['not', 'count_ones', 'trailing_zeros', 'leading_zeros', 'as_u8', 'as_u16', 'as_u32', 'as_isize', 'isize_as_usize', 'ineg', 'b2u', 'shl_const9', 'shl_const8']
    bi = ['add', 'sub', 'mul', 'shl', 'shr', 'div', 'rem', 'wrapping_add', 'wrapping_sub', 'wrapping_mul', 'wrapping_shl', 'wrapping_shr',
          'saturating_add', 'saturating_sub', 'and', 'or', 'xor', 'iadd', 'isub', 'min', 'max']
    L = []
    for op in un:
        for a in vals: L.append('sem %s %d' % (op, a))
    for op in bi:
        pairs = [(a, b) for a in vals for b in vals]
        for a, b in (pairs if tier != 'quick' else rng.sample(pairs, 160) + [(MAXU, 1), (0, 1), (MAXU, MAXU), (1, 64), (1, 63), (2**63, 1), (2**63, 2**63), (5, 0)]):
            L.append('sem %s %d %d' % (op, a, b))
    return L

def gen_C14(rng, tier):
    L = ['case C14']
    def add(x):
        L.append('bw popcount %x' % x); L.append('bw lsb %x' % x); L.append('bw msb %x' % x)
        pc = bin(x).count('1')
        for k in set([0, 1, pc - 1, pc, pc + 1, 7, 8, 63, 64, 2**63, MAXU, rng.randrange(0, 65)]):
            if k >= 0: L.append('bw select_in_word %x %d' % (x, k))
    for x in (0, MAXU, 1, 2**63): add(x)
    for i in range(64):
        add(1 << i); add((1 << i) - 1); add(((1 << i) + 1) & MAXU); add(MAXU ^ (1 << i))
    for i in range(64):
        for j in range(i + 1, 64, 5): add((1 << i) | (1 << j))
    # every byte value × in-byte rank × byte position, random other bytes (reaches every table entry)
    step = 1 if tier == 'thorough' else 3
    for b in range(0, 256, 1):
        for bp in range(0, 8, step):
            other = rng.getrandbits(64) & ~(0xff << (8 * bp)) & MAXU
            if rng.random() < 0.3: other = 0
            x = other | (b << (8 * bp))
            below = bin(x & ((1 << (8 * bp)) - 1)).count('1')
            L.append('bw popcount %x' % x)
            for r in range(bin(b).count('1') + 1):
                L.append('bw select_in_word %x %d' % (x, below + r))
            L.append('bw lsb %x' % x); L.append('bw msb %x' % x)
    for _ in range(3000 if tier == 'quick' else 30000):
        x = rng.getrandbits(64)
        if rng.random() < 0.3: x &= rng.getrandbits(64)
        if rng.random() < 0.2: x |= rng.getrandbits(64)
        add(x)
    L += ['ut needed_bits %d' % x for x in [0, 1, 2, 3, 255, 256, 2**63, MAXU] + [rng.getrandbits(rng.randrange(1, 65)) for _ in range(50)]]
    return [L, ['case C14-rust-semantics'] + sem_lines(rng, tier)]

def gen_C16(rng, tier):
    cases = []
    for ci in range(200 if tier == 'quick' else 1200):
        u = rng.choice([0, 1, 2, 10, 100, 2**20, 2**63, MAXU, rng.getrandbits(rng.randrange(1, 65))])
        cap = rng.choice([0, 1, 2, 3, 5, 10, 40, 100])
        L = ['case C16-%d u=%d m=%d' % (ci, u, cap), 'new 0 efb new %d %d' % (u, cap)]
        if cap == 0:
            L.append('new 0 efb new %d 1' % u); cap = 1
        L += ['q 0 universe', 'q 0 num_vals']
        last = 0; acc = []
        for _ in range(rng.randrange(0, 40)):
            r = rng.random()
            def val():
                q = rng.random()
                if q < 0.5 and u > last: return rng.randrange(last, min(u, last + rng.choice([1, 2, 100, 2**30, 2**62])) if u > last else last + 1)
                if q < 0.65: return last
                if q < 0.8: return max(0, last - rng.choice([1, 2, 100])) if last else 0
                if q < 0.9: return rng.choice([u, u + 1 if u < MAXU else MAXU, MAXU])
                return rng.randrange(0, u) if u else 0
            if r < 0.75:
                v = val(); L.append('m 0 push %d' % v)
                if last <= v < u and len(acc) < cap: acc.append(v); last = v
            else:
                vs = [val() for _ in range(rng.randrange(0, 6))]; L.append('m 0 extend %s' % lst(vs))
                for v in vs:
                    if last <= v < u and len(acc) < cap: acc.append(v); last = v
                    else: break
        L.append('new 1 ef build 0 1')
        n = len(acc)
        L += ['q 1 len', 'q 1 universe']
        for k in range(0, min(n, 12)): L.append('q 1 select %d' % k)
        L += ['q 1 select %d' % n, 'q 1 select %d' % (n + 1)]
        if n: L.append('it 1 iter 0 %s' % ','.join(['n'] * min(n + 2, 50)))
        else: L.append('it 1 iter 0 n,n')
        cases.append(L)
    # the high-bit vector has a length that is an exact multiple of 64 and its last word is used (whatever walks it word by word
    # must not lose a full last word): (m + 1) + (u >> l) + 1 ≡ 0 (mod 64), values up to u - 1
    for ci in range(8 if tier == 'quick' else 60):
        for _ in range(2000):
            m = rng.choice([21, 31, 40, 64, 100, 127, 300]); u = rng.randrange(m // 2, 40 * m)
            lw = (u // m).bit_length() - 1 if u // m else 0
            if ((m + 1) + (u >> lw) + 1) % 64 == 0 and u > 2: break
        else: continue
        xs = sorted(rng.randrange(0, u) for _ in range(m - 2)) + [u - 1, u - 1]
        L = ['case C16-wordfit-%d u=%d m=%d' % (ci, u, m), 'new 0 efb new %d %d' % (u, m), 'm 0 extend %s' % lst(xs), 'q 0 num_vals', 'new 1 ef build 0 1', 'q 1 len', 'q 1 universe']
        for k in sorted(set([0, 1, m // 2, m - 3, m - 2, m - 1, m])): L.append('q 1 select %d' % k)
        L.append('it 1 iter %d n,n,n,n' % (m - 3))
        cases.append(L)
    # large builders: what is built must be what was accepted also when the high bits get sparse 1024-blocks, and when the
    # final partial block of 32j+1 accepted values spans exactly the dense/sparse threshold of the select index
    shapes = [(u_, xs_, 'big-%d' % i) for i, (u_, xs_) in enumerate(big_ef_shapes(rng, tier)[:(1 if tier == 'quick' else 3)])]
    for span, j in ([(65536, 1)] if tier == 'quick' else [(65535, 1), (65536, 1), (65537, 1), (65536, 3)]):
        u_, xs_ = exact_span_seq(span, j); shapes.append((u_, xs_, 'span-%d-%d' % (span, j)))
    for u, xs, name in shapes:
        n = len(xs); cap = n + rng.choice([0, 0, 5])
        L = ['case C16-%s u=%d n=%d' % (name, u, n), 'new 0 efb new %d %d' % (u, cap)]
        cut = rng.randrange(1, n)
        L += ['m 0 extend %s' % lst(xs[:cut]), 'm 0 push %d' % u, 'm 0 push %d' % max(0, xs[cut - 1] - 1) if xs[cut - 1] else 'q 0 num_vals', 'm 0 extend %s' % lst(xs[cut:]), 'q 0 num_vals']
        L.append('new 1 ef build 0 1'); L += ['q 1 len', 'q 1 universe']
        for k in sorted(set([0, 1, 1023, 1024, 65535, 65536, n - 34, n - 33, n - 2, n - 1, n, cut - 1, cut] + [rng.randrange(0, n) for _ in range(12)])):
            if 0 <= k <= n: L.append('q 1 select %d' % k)
        L.append('it 1 iter %d n,n,n,n' % max(0, n - 3))
        cases.append(L)
    return cases

def gen_C17(rng, tier):
    cases = []
    def ops(n):
        k = min(n + 3, 60); o = []
        for _ in range(k):
            # `t<j>` = nth(j) (what skip / step_by call): mostly short hops, now and then to / past the end or by usize::MAX
            if rng.random() < 0.2: o.append('t%d' % (rng.choice([0, 1, 2, 3, 7]) if rng.random() < 0.85 else rng.choice([n, n + 1, MAXU, MAXU - 1, 2**63])))
            else: o.append('n')
            if rng.random() < 0.4: o.append('h')
        o += ['n', 'h', 't%d' % rng.choice([0, 1, MAXU]), 'h', 'n', 'h']
        return ','.join(o)
    for ci in range(40 if tier == 'quick' else 250):
        L = ['case C17-idx-%d' % ci]
        n, v = pick_bits(rng, tier, n=rng.choice([0, 1, 5, 64, 65, 130]))
        L += ['new 0 bv from_bits %s' % bits_lit(n, v), 'it 0 iter - %s' % ops(n), 'it 0 iter - h']
        xs = [rng.getrandbits(rng.randrange(1, 65)) for _ in range(rng.choice([0, 1, 3, 40]))]
        L += ['new 1 cv from_slice %s' % lst(xs), 'it 1 iter - %s' % ops(len(xs))]
        L += ['new 2 db from_slice %s' % lst(xs), 'it 2 iter - %s' % ops(len(xs))]
        L += ['new 3 do from_slice none %s' % lst(xs), 'it 3 iter - %s' % ops(len(xs))]
        ys = [x % 2**50 for x in xs] or [3]
        L += ['new 4 ps from_slice %s' % lst(ys), 'it 4 iter - %s' % ops(len(ys))]
        zs = [x % 2**62 for x in xs] or [0]
        b = ['wmr', 'wmd', 'wmb'][ci % 3]
        L += ['new 5 %s new %s' % (b, lst(zs)), 'it 5 iter - %s' % ops(len(zs))]
        u, cap, es = mono_seq(rng, tier, ci)
        es = es[:80]
        L += ['new 6 efb new %d %d' % (u, cap), 'm 6 extend %s' % lst(es), 'new 7 ef build 6']
        for k in set([0, 1, len(es) // 2, max(0, len(es) - 1), len(es), len(es) + 1, MAXU]):
            L.append('it 7 iter %d %s' % (k, ops(max(0, len(es) - min(k, len(es))))))
        cases.append(L)
    L = ['case C17-empty-ef', 'new 0 efb new 20 3', 'new 1 ef build 0', 'it 1 iter 0 n,n,h', 'it 1 iter 1 n', 'new 2 ef default', 'it 2 iter 0 n,n']
    cases.append(L)
    # iterators started near the end of a large sequence whose last high-bit block is partial with a span of exactly 2^16
    for span in ([65536] if tier == 'quick' else [65535, 65536, 65537]):
        u, xs = exact_span_seq(span); n = len(xs)
        L = ['case C17-span-%d' % span, 'new 0 efb new %d %d' % (u, n), 'm 0 extend %s' % lst(xs), 'new 1 ef build 0']
        for k in (n - 1, n - 2, n - 33, n - 34, 65535, n): L.append('it 1 iter %d n,h,n,n,h' % k)
        ys = [xs[0]] + [xs[i] - xs[i - 1] for i in range(1, n)]
        L += ['new 2 ps from_slice %s' % lst(ys), 'q 2 access %d' % (n - 1), 'q 2 access %d' % (n - 2)]
        cases.append(L)
    for ci in range(80 if tier == 'quick' else 500):
        n, v = pick_bits(rng, tier, n=rng.choice([0, 1, 3, 63, 64, 65, 128, 129, 192, 200, 1000, 5000]))
        L = ['case C17-unary-%d n=%d' % (ci, n), 'new 0 bv from_bits %s' % bits_lit(n, v)]
        pos = ones_positions(n, v)
        for _ in range(6):
            p = rng.choice([0, n, max(0, n - 1), n // 64 * 64, rng.randrange(0, n + 1)] + (rng.sample(pos, 1) if pos else []))
            kind = rng.choice(['next', 'skip', 'skip', 'mixed'])
            o = []
            if kind == 'next': o = ['n'] * min(len([q for q in pos if q >= p]) + 3, 50)
            else:
                for _ in range(rng.randrange(1, 14)):
                    r = rng.random()
                    k = rng.choice([0, 0, 1, 2, 5, 31, 64, 100, rng.randrange(0, 300), n, MAXU])
                    if kind == 'mixed' and r < 0.3: o.append('n')
                    elif r < 0.65: o.append('s1:%d' % k)
                    else: o.append('s0:%d' % k)
                    if rng.random() < 0.2: o.append('p')
                    if rng.random() < 0.1: o.append('h')
            L.append('it 0 unary %d %s' % (p, ','.join(o)))
        cases.append(L)
    return cases

def gen_C19(rng, tier):
    cases = []
    big = 300_000 if tier == 'quick' else 2_000_000
    def sz(L, oid): L.append('q %d size_in_bytes' % oid)
    nfam = 18 if tier == 'quick' else 80
    for ci in range(nfam):
        L = ['case C19-bits-%d' % ci]
        n = rng.choice([0, 1, 64, 1000, 8192, 100_000, big])
        fam = ci % 5
        gaps = [(33, 0), (50, 0), (63, 0), (40, 1)] if tier == 'quick' else [(g_, z_) for g_ in (20, 31, 32, 33, 40, 50, 63, 64, 65, 90) for z_ in (0, 1)]
        if ci >= nfam - len(gaps):
            # regular gaps g: every 1024-block spans 1024*g bits — the whole range of local densities between
            # "dense" and "stored verbatim" (and its complement, for the index over the zeros)
            g, compl = gaps[ci - (nfam - len(gaps))]; n = g * rng.choice([2100, 4200, 8000])
            v = sum(1 << i for i in range(0, n, g))
            if compl: v = ((1 << n) - 1) ^ v
        elif ci == 0:
            # the documented worst case of the select index: 1024 consecutive ones alternating with 1024 ones whose ends are
            # exactly 65536 apart (stored verbatim), so that every other term of the bound has to stay within its own allowance
            k = 4 if tier == 'quick' else 12; v = 0; pos = 0
            for _ in range(k):
                v |= ((1 << 1024) - 1) << pos; pos += 1024
                for i in range(1023): v |= 1 << (pos + 64 * i)
                v |= 1 << (pos + 65536); pos += 65537
            n = pos + rng.randrange(0, 64)
        elif fam == 0: v = (1 << n) - 1                       # all ones: most select1 hints
        elif fam == 1: v = 0                                 # all zeros: most select0 hints
        elif fam == 2: n, v = darray_bits(rng, tier)         # alternating dense/sparse blocks
        elif fam == 3: v = rand_bits(rng, n, 0.5)
        else: v = rand_bits(rng, n, 0.01)
        lit = bits_lit(n, v)
        L.append('new 0 bv from_bits %s' % lit); sz(L, 0)
        for k, (a, b) in enumerate(((0, 0), (1, 1))): L.append('new %d r9 new %s %d %d' % (1 + k, lit, a, b)); sz(L, 1 + k)
        for k, (a, b) in enumerate(((0, 0), (1, 0), (0, 1), (1, 1))): L.append('new %d da new %s %d %d' % (3 + k, lit, a, b)); sz(L, 3 + k)
        for k in (0, 1): L.append('new %d sa new %s %d' % (7 + k, lit, k)); sz(L, 7 + k)
        # enabling an index that is already there (after `build_from_bits(.., true, ..)` or a round trip) must not grow the structure
        L += ['m 2 select1_hints', 'm 2 select0_hints']; sz(L, 2)
        L += ['new 9 r9 deser 2', 'm 9 select0_hints', 'm 9 select1_hints']; sz(L, 9)
        L += ['m 6 enable_select0', 'm 6 enable_rank']; sz(L, 6)
        L += ['m 8 enable_rank']; sz(L, 8)
        cases.append(L)
    for ci in range(30 if tier == 'quick' else 150):
        L = ['case C19-seq-%d' % ci]
        # u/n just below a power of two
        n = rng.choice([1, 10, 1000, 10000])
        w = rng.randrange(0, 50)
        u = max(1, n * (1 << (w + 1)) - 1)
        xs = sorted(rng.randrange(0, u) for _ in range(n))
        for k in (0, 1):
            L += ['new %d efb new %d %d' % (10 + k, u, n), 'm %d extend %s' % (10 + k, lst(xs)), 'new %d ef build %d %d' % (k, 10 + k, k)]; sz(L, k)
        L += ['m 1 enable_rank']; sz(L, 1)
        vals = dac_vals(rng, tier, ci)
        L.append('new 2 db from_slice %s' % lst(vals)); sz(L, 2)
        L.append('new 3 do from_slice %s %s' % (rng.choice(['none', '2', '4']), lst(vals))); sz(L, 3)
        ps = [x % 2**40 for x in vals] or [1]
        L.append('new 4 ps from_slice %s' % lst(ps)); sz(L, 4)
        cvs = [x % 2**rng.randrange(1, 64) for x in vals]
        L.append('new 5 cv from_slice %s' % lst(cvs)); sz(L, 5)
        wm = [x % 2**rng.choice([1, 3, 8, 20, 62]) for x in vals] or [0]
        L.append('new 6 wmr new %s' % lst(wm)); sz(L, 6)
        cases.append(L)
    return cases

def gen_C15(rng, tier):
    """in-contract workloads drawn from the C01–C12 (and C16/C17) generators, run in all four builds"""
    sub = 'quick'
    cases = []
    for g in (gen_C01, gen_C02, gen_C03, gen_C04, gen_C05, gen_C06, gen_C07, gen_C09, gen_C10, gen_C11, gen_C12, gen_C16, gen_C17):
        cs = g(rng, sub)
        k = 12 if tier == 'quick' else 60
        cases += rng.sample(cs, min(k, len(cs)))
    cs = gen_C14(rng, 'quick')[0]
    cases.append(cs[:1] + rng.sample(cs[1:], 3000))
    return cases

def with_hops(gen):
    """every plain iterator walk (`it <id> iter <arg> n,n,…`) gets a sibling walk by hops: `t<k>` = `nth(k)`, which `skip` and
    `step_by` are built on, including hops to and past the end followed by further use of the same iterator"""
    def g(rng, tier, *a):
        cases = gen(rng, tier, *a)
        r2 = random.Random(rng.random())
        for c in cases:
            extra = []
            for l in c:
                t = l.split(' ')
                if t[0] == 'it' and t[2] == 'iter' and len(t) == 5 and set(t[4].split(',')) <= {'n'} and r2.random() < 0.5:
                    k = min(len(t[4].split(',')), 14); ops = []
                    for _ in range(k):
                        q = r2.random()
                        ops.append('n' if q < 0.45 else 'h' if q < 0.6 else 't%d' % (r2.choice([0, 1, 2, 3, 9]) if q < 0.9 else r2.choice([k, 200, 70000, MAXU, MAXU - 1])))
                    ops += ['t%d' % r2.choice([100000, MAXU]), 'n', 'h', 'n']
                    extra.append(' '.join(t[:4] + [','.join(ops)]))
            c.extend(extra)
        return cases
    return g

GENERATORS = {'C01': gen_C01, 'C02': gen_C02, 'C03': gen_C03, 'C04': gen_C04, 'C05': gen_C05, 'C06': gen_C06,
              'C07': gen_C07, 'C08': gen_C08, 'C09': gen_C09, 'C10': gen_C10, 'C11': gen_C11, 'C12': gen_C12,
              'C13': gen_C13, 'C14': gen_C14, 'C15': gen_C15, 'C16': gen_C16, 'C17': gen_C17, 'C18': gen_C18,
              'C19': gen_C19}
def with_reenable(gen):
    """index builders applied to a structure that already has the index: the answers (and the serialized bytes) stay what they were"""
    REEN = {'r9': ['select1_hints', 'select0_hints'], 'da': ['enable_rank', 'enable_select0'], 'sa': ['enable_rank'], 'ef': ['enable_rank']}
    def g(rng, tier, *a):
        cases = gen(rng, tier, *a)
        r2 = random.Random(rng.random())
        for c in cases:
            if r2.random() < 0.6 or len(c) > 3000: continue
            objs = {}
            for l in c:
                t = l.split(' ')
                if t[0] == 'new' and len(t) > 3 and t[2] in REEN and len(l) < 200000: objs[t[1]] = t[2]
            extra = []
            for oid, kind in objs.items():
                qs = [l for l in c if l.startswith('q %s ' % oid) and l.split(' ')[2] not in ('ser', 'rt', 'sched', 'trunc', 'wfail')]
                if not qs: continue
                for m in r2.sample(REEN[kind], r2.randrange(1, len(REEN[kind]) + 1)): extra.append('m %s %s' % (oid, m))
                extra += r2.sample(qs, min(len(qs), 8))
            c.extend(extra)
        return cases
    return g

def with_ctor_hints(gen):
    """bit structures built from an iterator that reports another legal size hint (an upper bound above the count, none at all)"""
    def g(rng, tier, *a):
        cases = gen(rng, tier, *a)
        r2 = random.Random(rng.random())
        for c in cases:
            for i, l in enumerate(c):
                t = l.split(' ')
                if t[0] == 'new' and len(t) >= 5 and t[2] in ('r9', 'da', 'sa') and t[3] in ('new', 'build') and ':' in t[4] and r2.random() < 0.3:
                    want = {('r9', 'new'): 7, ('da', 'new'): 7, ('sa', 'new'): 6}.get((t[2], t[3]), 8)
                    if len(t) != want: continue
                    n = int(t[4].split(':')[0])
                    c[i] = l + ' ' + r2.choice(['h0:none', 'h0:%d' % (n + 1), 'h0:%d' % (n + 600), 'h%d:%d' % (n, 2 * n + 64), 'h%d:%d' % (n, n)])
        return cases
    return g

GENERATORS = dict((k_, with_hops(v_)) for k_, v_ in GENERATORS.items())
for k_ in ('C01', 'C02', 'C03', 'C15', 'C19'): GENERATORS[k_] = with_ctor_hints(GENERATORS[k_])
for k_ in ('C01', 'C02', 'C03', 'C04', 'C12', 'C15'): GENERATORS[k_] = with_reenable(GENERATORS[k_])


# ------------------------------------------------------------------------------------------------
# Literal-directed search on large values (used only after a proof obligation or the correspondence broke).
# The requests are `big <kind> <n> <seed>`: self-checking serialization requests answered by the
# implementation alone (harness/src/big.rs); the property is decided from the fields of the answer, so no model
# run is needed and values far larger than the model driver can evaluate are affordable.

LITERAL_PIN = os.path.join(os.path.dirname(os.path.abspath(__file__)), 'pinned_literals.json')

def mine_literals(repo):
    """integer literals, `1 << k` and `a * b` of literals in the sources under src/ (values in [64, 2^32])"""
    import re
    vals = set()
    for dp, _, fns in os.walk(os.path.join(repo, 'src')):
        for fn in fns:
            if not fn.endswith('.rs'): continue
            src = open(os.path.join(dp, fn), errors='replace').read()
            src = re.sub(r'//[^\n]*', '', src)
            src = re.sub(r'/\*.*?\*/', '', src, flags=re.S)
            src = re.sub(r'"(\\.|[^"\\])*"', '""', src)
            def lit(s):
                s = re.sub(r'(usize|u64|u32|u16|u8|isize|i64|i32)$', '', s.replace('_', ''))
                try: return int(s, 16) if s.lower().startswith('0x') else int(s, 2) if s.lower().startswith('0b') else int(s)
                except ValueError: return None
            L = r'(0[xX][0-9a-fA-F_]+|0[bB][01_]+|\d[\d_]*)(?:usize|u64|u32|u16|u8|isize|i64|i32)?'
            for m in re.finditer(r'\b' + L + r'\b', src):
                v = lit(m.group(1))
                if v is not None: vals.add(v)
            for m in re.finditer(r'\b' + L + r'\s*<<\s*' + L + r'\b', src):
                a, b = lit(m.group(1)), lit(m.group(2))
                if a is not None and b is not None and b < 40: vals.add(a << b)
            for m in re.finditer(r'\b' + L + r'\s*\*\s*' + L + r'\b', src):
                a, b = lit(m.group(1)), lit(m.group(2))
                if a is not None and b is not None: vals.add(a * b)
    return sorted(v for v in vals if 64 <= v <= 2**32)

def new_literals(repo):
    cur = mine_literals(repo)
    try: pinned = set(json.load(open(LITERAL_PIN)))
    except Exception: pinned = set()
    return [v for v in cur if v not in pinned]

BIG_KINDS = [  # (kind, n as a function of the element count c, limit on n)
    ('vec_u8', lambda c: c, 1 << 23), ('vec_u64', lambda c: c, 1 << 22), ('vec_u16', lambda c: c, 1 << 22),
    ('bv', lambda c: 64 * c - 17, 1 << 28), ('db', lambda c: c, 1 << 22), ('cv', lambda c: c, 1 << 22),
    ('r9', lambda c: 64 * c, 1 << 27), ('r9s0', lambda c: 1024 * c - 5, 1 << 27), ('r9s1', lambda c: 1024 * c - 5, 1 << 27),
    ('da', lambda c: 64 * c, 1 << 27), ('da1', lambda c: 1024 * c - 3, 1 << 27), ('vec_bool', lambda c: c, 1 << 23),
    ('do', lambda c: c, 1 << 21), ('ef', lambda c: c, 1 << 21), ('ps', lambda c: c, 1 << 21), ('wm', lambda c: c, 1 << 20),
    ('sa', lambda c: 64 * c, 1 << 26), ('vec_u32', lambda c: c, 1 << 22), ('vec_i64', lambda c: c, 1 << 22)]

def big_search_lines(literals, prop='C08'):
    """requests ordered so that every literal gets its most telling sizes first"""
    if prop in BIGQ_KINDS: return bigq_search_lines(prop, literals)
    Ls = [v for v in literals if 256 <= v <= 2**28][:8]
    for d in (1 << 16, 1 << 20):
        if d not in Ls: Ls.append(d)
    rounds = [lambda L: L + 3, lambda L: L // 8, lambda L: L, lambda L: 2 * L, lambda L: L // 2, lambda L: L + 1,
              lambda L: L // 4, lambda L: L - 1, lambda L: L // 8 + 1, lambda L: 3 * L + 7, lambda L: L // 2 + 1, lambda L: 2 * L // 8]
    out, seen = [], set()
    for ri, f in enumerate(rounds):
        for L in Ls:
            c = f(L)
            if c < 16: continue
            for kind, fn, lim in BIG_KINDS:
                n = fn(c)
                if n > lim or n <= 0: continue
                seed = 3 if kind in ('r9s0', 'r9s1', 'da1') else (ri + len(out)) % 4 + 4 * (len(out) % 16)
                key = (kind, n)
                if key in seen: continue
                seen.add(key); out.append('big %s %d %d' % (kind, n, seed))
    return out

def big_oracle(prop, ans):
    """None = the answer meets the property's clauses; else what fails"""
    if ans == 'ctor-err': return None
    if ans == 'panic': return 'panic'
    if prop in BIGQ_KINDS:
        import re
        m = re.search(r'bad=(\d+) first_bad=(\S+)', ans)
        if not m: return 'unparsable answer'
        return None if m.group(1) == '0' else 'answers differ from the plain sequence on %s of the sampled queries, first: %s' % (m.group(1), m.group(2))
    import re
    f = dict(re.findall(r'(\w+)=(.*?)(?= \w+=|$)', ans))
    if 'size' not in f: return 'unparsable answer'
    if prop == 'C08':
        if not (f.get('ret') == f.get('sib') == f.get('size')): return 'serialize_into returned %s, size_in_bytes %s, bytes written %s' % (f.get('ret'), f.get('sib'), f.get('size'))
        if f.get('consumed') != f.get('size') or f.get('eq') != '1': return 'round trip: consumed=%s of %s bytes, equal=%s' % (f.get('consumed'), f.get('size'), f.get('eq'))
        if f.get('sched') != '%s/1' % f.get('size'): return 'reader delivering the bytes in pieces: %s' % f.get('sched')
        return None
    if prop == 'C13':
        if f.get('trunc_ok') != '0' or f.get('trunc_panic') != '0': return 'strict prefix of %s of %s bytes: Ok on %s, panic on %s of the sampled prefixes' % (f.get('first_bad'), f.get('size'), f.get('trunc_ok'), f.get('trunc_panic'))
        return None
    return None

BIGQ_KINDS = {'C01': [('r9', 1 << 25)], 'C02': [('da', 1 << 25)], 'C03': [('sa', 1 << 25)], 'C04': [('ef', 1 << 21)], 'C05': [('wm', 1 << 20), ('wmd', 1 << 20)],
              'C09': [('cv', 1 << 22)], 'C10': [('do', 1 << 21)], 'C11': [('db', 1 << 22)], 'C12': [('ps', 1 << 21)]}

def bigq_search_lines(prop, literals):
    """self-checking query requests (`bigq`, harness/src/big.rs) on large values of the property's structure"""
    Ls = [v for v in literals if 256 <= v <= 2**26][:8]
    for d in (1 << 16, 1 << 20):
        if d not in Ls: Ls.append(d)
    rounds = [lambda L: L + 3, lambda L: 3 * L + 7, lambda L: L, lambda L: 64 * L, lambda L: 2 * L, lambda L: L // 2, lambda L: 1024 * L - 5, lambda L: L - 1,
              lambda L: L + 1, lambda L: L // 8, lambda L: L // 64 + 1, lambda L: 5 * L + 11, lambda L: 16 * L + 1]
    out, seen = [], set()
    for ri, f in enumerate(rounds):
        for L in Ls:
            n = f(L)
            for kind, lim in BIGQ_KINDS[prop]:
                if n < 16 or n > lim: continue
                for sd in range(4):
                    seed = sd + 4 * ((ri + sd) % 3)
                    if (kind, n, seed) in seen: continue
                    seen.add((kind, n, seed)); out.append('bigq %s %d %d' % (kind, n, seed))
    return out

BIG_SEARCH_PROPS = ('C08', 'C13') + tuple(BIGQ_KINDS)

if __name__ == '__main__':
    import sys
    if len(sys.argv) >= 3 and sys.argv[1] == '--pin-literals':
        json.dump(mine_literals(sys.argv[2]), open(LITERAL_PIN, 'w')); print('pinned', len(mine_literals(sys.argv[2])), 'literals')
