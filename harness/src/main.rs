//! Correspondence harness: interprets a line script against the real `sucds` crate (path dependency
//! on /repo, rebuilt from the working tree) and prints one canonical result line per request.
//! The same script is executed by the Lean model driver; `tools/check.py` compares the outputs.
use std::collections::HashMap;
use std::io::{self, BufRead, Read, Write};
use std::ops::Range;
use std::panic::{catch_unwind, AssertUnwindSafe};

use sucds::bit_vectors::{BitVector, DArray, Rank9Sel, SArray};
use sucds::bit_vectors::{Access as BAccess, Build as BBuild, NumBits, Rank, Select};
use sucds::char_sequences::WaveletMatrix;
use sucds::int_vectors::{
    Access as IAccess, Build as IBuild, CompactVector, DacsByte, DacsOpt, NumVals,
    PrefixSummedEliasFano,
};
use sucds::mii_sequences::{EliasFano, EliasFanoBuilder};
use sucds::Serializable;

mod big;

enum Obj {
    Bv(BitVector),
    R9(Rank9Sel),
    Da(DArray),
    Sa(SArray),
    Efb(EliasFanoBuilder),
    Ef(EliasFano),
    Cv(CompactVector),
    Db(DacsByte),
    Do(DacsOpt),
    Ps(PrefixSummedEliasFano),
    WmR(WaveletMatrix<Rank9Sel>),
    WmD(WaveletMatrix<DArray>),
    WmB(WaveletMatrix<BitVector>),
}

type Res = Result<String, String>; // Err = script error (bad request), never a model result

fn num(s: &str) -> Result<usize, String> {
    if let Some(h) = s.strip_prefix("0x") {
        usize::from_str_radix(h, 16).map_err(|e| format!("bad hex {s}: {e}"))
    } else {
        s.parse::<usize>().map_err(|e| format!("bad num {s}: {e}"))
    }
}
fn flag(s: &str) -> Result<bool, String> {
    match s {
        "0" => Ok(false),
        "1" => Ok(true),
        _ => Err(format!("bad flag {s}")),
    }
}
fn list(s: &str) -> Result<Vec<usize>, String> {
    if s == "-" {
        return Ok(vec![]);
    }
    s.split(',').map(num).collect()
}
fn ilist(s: &str) -> Result<Vec<i64>, String> {
    if s == "-" {
        return Ok(vec![]);
    }
    s.split(',').map(|t| t.parse::<i64>().map_err(|e| format!("bad int {t}: {e}"))).collect()
}
fn range(s: &str) -> Result<Range<usize>, String> {
    let mut it = s.split("..");
    let a = num(it.next().ok_or("range")?)?;
    let b = num(it.next().ok_or("range")?)?;
    Ok(a..b)
}
fn ranges(s: &str) -> Result<Vec<Range<usize>>, String> {
    if s == "-" {
        return Ok(vec![]);
    }
    s.split(',').map(range).collect()
}
/// `len:hexword,hexword,...` (little-endian words, no `0x`)
fn bits(s: &str) -> Result<Vec<bool>, String> {
    let (l, w) = s.split_once(':').ok_or("bits")?;
    let len = num(l)?;
    let words: Vec<u64> = if w.is_empty() {
        vec![]
    } else {
        w.split(',')
            .map(|t| u64::from_str_radix(t, 16).map_err(|e| format!("bad word {t}: {e}")))
            .collect::<Result<_, _>>()?
    };
    let mut out = Vec::with_capacity(len);
    for i in 0..len {
        let w = words.get(i / 64).copied().unwrap_or(0);
        out.push((w >> (i % 64)) & 1 == 1);
    }
    Ok(out)
}

/// an iterator over the given bits that reports the size hint `h<lower>:<upper|none>` (any hint with
/// lower <= count <= upper is a legal one; `extend`/`from_bits` take any iterator)
struct Hinted {
    it: std::vec::IntoIter<bool>,
    lo: usize,
    hi: Option<usize>,
}
impl Iterator for Hinted {
    type Item = bool;
    fn next(&mut self) -> Option<bool> {
        self.it.next()
    }
    fn size_hint(&self) -> (usize, Option<usize>) {
        (self.lo.min(self.it.len()), self.hi.map(|h| h.max(self.it.len())))
    }
}
fn hinted(v: Vec<bool>, h: &str) -> Result<Hinted, String> {
    let (l, u) = h.strip_prefix('h').and_then(|r| r.split_once(':')).ok_or("hint")?;
    Ok(Hinted { it: v.into_iter(), lo: num(l)?, hi: if u == "none" { None } else { Some(num(u)?) } })
}

fn on(x: Option<usize>) -> String {
    match x {
        Some(v) => format!("some {v}"),
        None => "none".to_string(),
    }
}
fn ob(x: Option<bool>) -> String {
    match x {
        Some(v) => format!("some {}", v as u8),
        None => "none".to_string(),
    }
}
fn ol(x: Option<Vec<usize>>) -> String {
    match x {
        Some(v) => format!("some {}", fl(&v)),
        None => "none".to_string(),
    }
}
fn fl(v: &[usize]) -> String {
    let s: Vec<String> = v.iter().map(|x| x.to_string()).collect();
    format!("[{}]", s.join(","))
}
fn okerr<T, E>(r: &Result<T, E>) -> String {
    if r.is_ok() { "ok".into() } else { "err".into() }
}
fn hex(b: &[u8]) -> String {
    let mut s = String::with_capacity(b.len() * 2);
    for x in b {
        s.push_str(&format!("{:02x}", x));
    }
    s
}
fn words_hex(w: &[usize]) -> String {
    let s: Vec<String> = w.iter().map(|x| format!("{:x}", x)).collect();
    format!("[{}]", s.join(","))
}

// ---------------------------------------------------------------------------------------------
// faulty I/O

/// reader delivering the data according to a cyclic schedule: `c<n>` = at most n bytes, `i` = Interrupted
struct SchedReader<'a> {
    data: &'a [u8],
    pos: usize,
    sched: Vec<Option<usize>>,
    step: usize,
}
impl Read for SchedReader<'_> {
    fn read(&mut self, buf: &mut [u8]) -> io::Result<usize> {
        if buf.is_empty() {
            return Ok(0);
        }
        let ev = if self.sched.is_empty() { Some(usize::MAX) } else { self.sched[self.step % self.sched.len()] };
        self.step += 1;
        match ev {
            None => Err(io::Error::new(io::ErrorKind::Interrupted, "eintr")),
            Some(n) => {
                let k = n.min(buf.len()).min(self.data.len() - self.pos);
                buf[..k].copy_from_slice(&self.data[self.pos..self.pos + k]);
                self.pos += k;
                Ok(k)
            }
        }
    }
}
/// writer accepting `limit` bytes (in pieces given by the schedule) and failing afterwards
struct SchedWriter {
    out: Vec<u8>,
    limit: usize,
    sched: Vec<Option<usize>>,
    step: usize,
}
impl Write for SchedWriter {
    fn write(&mut self, buf: &[u8]) -> io::Result<usize> {
        if buf.is_empty() {
            return Ok(0);
        }
        let ev = if self.sched.is_empty() { Some(usize::MAX) } else { self.sched[self.step % self.sched.len()] };
        self.step += 1;
        match ev {
            None => Err(io::Error::new(io::ErrorKind::Interrupted, "eintr")),
            Some(n) => {
                if self.out.len() >= self.limit {
                    return Err(io::Error::new(io::ErrorKind::Other, "disk full"));
                }
                let k = n.max(1).min(buf.len()).min(self.limit - self.out.len());
                self.out.extend_from_slice(&buf[..k]);
                Ok(k)
            }
        }
    }
    fn flush(&mut self) -> io::Result<()> {
        Ok(())
    }
}
fn sched(s: &str) -> Result<Vec<Option<usize>>, String> {
    if s == "-" {
        return Ok(vec![]);
    }
    s.split(',')
        .map(|t| {
            if t == "i" {
                Ok(None)
            } else if let Some(n) = t.strip_prefix('c') {
                num(n).map(Some)
            } else {
                Err(format!("bad sched {t}"))
            }
        })
        .collect()
}

fn ser_bytes<S: Serializable>(x: &S) -> (Vec<u8>, Result<usize, ()>) {
    let mut b = vec![];
    let r = x.serialize_into(&mut b).map_err(|_| ());
    (b, r)
}
fn ser_line<S: Serializable>(x: &S) -> String {
    let (b, r) = ser_bytes(x);
    match r {
        Ok(n) => format!("ret={} sib={} bytes={}", n, x.size_in_bytes(), hex(&b)),
        Err(_) => "err".into(),
    }
}
/// round trip with `extra` trailing bytes: consumed count and equality
fn rt_line<S: Serializable + PartialEq>(x: &S, extra: usize) -> String {
    let (mut b, _) = ser_bytes(x);
    let n = b.len();
    for i in 0..extra {
        b.push((i as u8).wrapping_mul(37).wrapping_add(0xa5));
    }
    let mut cur = io::Cursor::new(&b[..]);
    match S::deserialize_from(&mut cur) {
        Ok(y) => format!("ok consumed={} size={} eq={}", cur.position(), n, (y == *x) as u8),
        Err(_) => "err".into(),
    }
}
/// two values back to back
fn rt2_line<S: Serializable + PartialEq, T: Serializable + PartialEq>(x: &S, y: &T) -> String {
    let mut b = vec![];
    let r1 = x.serialize_into(&mut b);
    let r2 = y.serialize_into(&mut b);
    if r1.is_err() || r2.is_err() {
        return "err".into();
    }
    let mut cur = io::Cursor::new(&b[..]);
    let a = S::deserialize_from(&mut cur);
    let c = T::deserialize_from(&mut cur);
    match (a, c) {
        (Ok(a), Ok(c)) => format!(
            "ok consumed={} eq={}",
            cur.position(),
            ((a == *x) && (c == *y)) as u8
        ),
        _ => "err".into(),
    }
}
/// `all` offsets: every offset for images up to 4096 bytes, otherwise the first 64, the last 64 and 256 evenly
/// spaced ones (the model driver uses the same rule)
fn all_offsets(size: usize, inclusive: bool) -> Vec<usize> {
    let top = if inclusive { size + 1 } else { size };
    if size <= 4096 {
        return (0..top).collect();
    }
    let mut v: Vec<usize> = (0..64).collect();
    v.extend((0..256).map(|i| i * size / 256));
    v.extend(top - 64..top);
    v.sort();
    v.dedup();
    v
}

/// deserialize every requested strict prefix
fn trunc_line<S: Serializable>(x: &S, offs: &str) -> Result<String, String> {
    let (b, _) = ser_bytes(x);
    let offsets: Vec<usize> = if offs == "all" { all_offsets(b.len(), false) } else { list(offs)? };
    let (mut ok, mut err, mut pan) = (0, 0, 0);
    let mut first_bad: Option<usize> = None;
    for &k in &offsets {
        if k >= b.len() {
            continue;
        }
        let r = catch_unwind(AssertUnwindSafe(|| S::deserialize_from(&b[..k]).is_ok()));
        match r {
            Ok(true) => {
                ok += 1;
                first_bad.get_or_insert(k);
            }
            Ok(false) => err += 1,
            Err(_) => {
                pan += 1;
                first_bad.get_or_insert(k);
            }
        }
    }
    Ok(format!("size={} ok={} err={} panic={} first_bad={}", b.len(), ok, err, pan, on(first_bad)))
}
fn sched_line<S: Serializable + PartialEq>(x: &S, sc: &str) -> Result<String, String> {
    let (b, _) = ser_bytes(x);
    let mut r = SchedReader { data: &b, pos: 0, sched: sched(sc)?, step: 0 };
    Ok(match S::deserialize_from(&mut r) {
        Ok(y) => format!("ok consumed={} size={} eq={}", r.pos, b.len(), (y == *x) as u8),
        Err(_) => "err".into(),
    })
}
/// serialize into writers failing after each requested number of bytes
fn wfail_line<S: Serializable>(x: &S, offs: &str, sc: &str) -> Result<String, String> {
    let (b, _) = ser_bytes(x);
    let offsets: Vec<usize> = if offs == "all" { all_offsets(b.len(), true) } else { list(offs)? };
    let sc = sched(sc)?;
    let (mut ok, mut err, mut pan, mut prefix_ok) = (0, 0, 0, true);
    let mut first_bad: Option<usize> = None;
    for &j in &offsets {
        let mut w = SchedWriter { out: vec![], limit: j, sched: sc.clone(), step: 0 };
        let r = catch_unwind(AssertUnwindSafe(|| x.serialize_into(&mut w).map_err(|_| ())));
        let good_prefix = w.out.len() <= b.len() && w.out[..] == b[..w.out.len()];
        prefix_ok &= good_prefix;
        match r {
            Ok(Ok(n)) => {
                ok += 1;
                if j < b.len() || n != b.len() || w.out != b {
                    first_bad.get_or_insert(j);
                }
            }
            Ok(Err(_)) => {
                err += 1;
                if j >= b.len() || w.out.len() != j {
                    first_bad.get_or_insert(j);
                }
            }
            Err(_) => {
                pan += 1;
                first_bad.get_or_insert(j);
            }
        }
    }
    Ok(format!(
        "size={} ok={} err={} panic={} prefix_ok={} first_bad={}",
        b.len(), ok, err, pan, prefix_ok as u8, on(first_bad)
    ))
}

macro_rules! for_ser {
    ($o:expr, $x:ident => $e:expr) => {
        match $o {
            Obj::Bv($x) => $e,
            Obj::R9($x) => $e,
            Obj::Da($x) => $e,
            Obj::Sa($x) => $e,
            Obj::Ef($x) => $e,
            Obj::Cv($x) => $e,
            Obj::Db($x) => $e,
            Obj::Do($x) => $e,
            Obj::Ps($x) => $e,
            Obj::WmR($x) => $e,
            Obj::WmD($x) => $e,
            Obj::WmB($x) => $e,
            Obj::Efb(_) => return Err("builder is not serializable".into()),
        }
    };
}

fn deser(kind: &str, b: &[u8]) -> Result<Option<Obj>, String> {
    Ok(match kind {
        "bv" => BitVector::deserialize_from(b).ok().map(Obj::Bv),
        "r9" => Rank9Sel::deserialize_from(b).ok().map(Obj::R9),
        "da" => DArray::deserialize_from(b).ok().map(Obj::Da),
        "sa" => SArray::deserialize_from(b).ok().map(Obj::Sa),
        "ef" => EliasFano::deserialize_from(b).ok().map(Obj::Ef),
        "cv" => CompactVector::deserialize_from(b).ok().map(Obj::Cv),
        "db" => DacsByte::deserialize_from(b).ok().map(Obj::Db),
        "do" => DacsOpt::deserialize_from(b).ok().map(Obj::Do),
        "ps" => PrefixSummedEliasFano::deserialize_from(b).ok().map(Obj::Ps),
        "wmr" => WaveletMatrix::<Rank9Sel>::deserialize_from(b).ok().map(Obj::WmR),
        "wmd" => WaveletMatrix::<DArray>::deserialize_from(b).ok().map(Obj::WmD),
        "wmb" => WaveletMatrix::<BitVector>::deserialize_from(b).ok().map(Obj::WmB),
        _ => return Err(format!("bad kind {kind}")),
    })
}

// ---------------------------------------------------------------------------------------------

struct St {
    objs: HashMap<usize, Obj>,
}

fn bitq<B: BAccess + Rank + Select + NumBits>(b: &B, m: &str, a: &[&str]) -> Res {
    Ok(match m {
        "access" => ob(b.access(num(a[0])?)),
        "rank1" => on(b.rank1(num(a[0])?)),
        "rank0" => on(b.rank0(num(a[0])?)),
        "select1" => on(b.select1(num(a[0])?)),
        "select0" => on(b.select0(num(a[0])?)),
        "num_bits" => b.num_bits().to_string(),
        "num_ones" => b.num_ones().to_string(),
        "num_zeros" => b.num_zeros().to_string(),
        _ => return Err(format!("bad bit query {m}")),
    })
}

fn wmq<B: BAccess + BBuild + NumBits + Rank + Select>(w: &WaveletMatrix<B>, m: &str, a: &[&str]) -> Res {
    Ok(match m {
        "access" => on(w.access(num(a[0])?)),
        "rank" => on(w.rank(num(a[0])?, num(a[1])?)),
        "rank_range" => on(w.rank_range(range(a[0])?, num(a[1])?)),
        "select" => on(w.select(num(a[0])?, num(a[1])?)),
        "quantile" => on(w.quantile(range(a[0])?, num(a[1])?)),
        "intersect" => ol(w.intersect(&ranges(a[0])?, num(a[1])?)),
        "len" => w.len().to_string(),
        "is_empty" => (w.is_empty() as u8).to_string(),
        "alph_size" => w.alph_size().to_string(),
        "alph_width" => w.alph_width().to_string(),
        _ => return Err(format!("bad wm query {m}")),
    })
}

/// run iterator operations `n` (next), `h` (size_hint) on any iterator
fn run_iter<T, I: Iterator<Item = T>>(mut it: I, ops: &str, show: impl Fn(T) -> String) -> Res {
    let mut out: Vec<String> = vec![];
    for op in ops.split(',') {
        let r = catch_unwind(AssertUnwindSafe(|| match op {
            "n" => Ok(match it.next() {
                Some(v) => format!("some {}", show(v)),
                None => "none".into(),
            }),
            "h" => {
                let (lo, hi) = it.size_hint();
                Ok(format!("({},{})", lo, match hi { Some(h) => h.to_string(), None => "inf".into() }))
            }
            _ => match op.strip_prefix('t').and_then(|k| k.parse::<usize>().ok()) {
                // `Iterator::nth(k)` (what `skip` and `step_by` are built on)
                Some(k) => Ok(match it.nth(k) {
                    Some(v) => format!("some {}", show(v)),
                    None => "none".into(),
                }),
                None => Err(format!("bad iter op {op}")),
            },
        }));
        match r {
            Ok(Ok(s)) => out.push(s),
            Ok(Err(e)) => return Err(e),
            Err(_) => {
                out.push("panic".into());
                break;
            }
        }
    }
    Ok(out.join(";"))
}

fn l8(s: &str) -> Result<Vec<u8>, String> { Ok(list(s)?.into_iter().map(|x| x as u8).collect()) }
fn l32(s: &str) -> Result<Vec<u32>, String> { Ok(list(s)?.into_iter().map(|x| x as u32).collect()) }

fn cv_from(vals: &[usize]) -> CompactVector {
    CompactVector::from_slice(vals).unwrap()
}

impl St {
    fn get(&self, id: &str) -> Result<&Obj, String> {
        self.objs.get(&num(id)?).ok_or_else(|| "noobj".to_string())
    }

    fn new_obj(&mut self, t: &[&str]) -> Res {
        // new <id> <kind> <ctor> args...
        let id = num(t[1])?;
        let (kind, ctor, a) = (t[2], t[3], &t[4..]);
        let o: Option<Obj> = match (kind, ctor) {
            ("bv", "new") => Some(Obj::Bv(BitVector::new())),
            ("bv", "from_bit") => Some(Obj::Bv(BitVector::from_bit(flag(a[0])?, num(a[1])?))),
            ("bv", "from_bits") if a.len() > 1 => Some(Obj::Bv(BitVector::from_bits(hinted(bits(a[0])?, a[1])?))),
            ("bv", "from_bits") => Some(Obj::Bv(BitVector::from_bits(bits(a[0])?))),
            ("bv", "build") => BitVector::build_from_bits(bits(a[0])?, flag(a[1])?, flag(a[2])?, flag(a[3])?).ok().map(Obj::Bv),
            ("r9", "new") if a.len() > 3 => {
                let mut r = Rank9Sel::from_bits(hinted(bits(a[0])?, a[3])?);
                if flag(a[1])? { r = r.select1_hints(); }
                if flag(a[2])? { r = r.select0_hints(); }
                Some(Obj::R9(r))
            }
            ("r9", "build") if a.len() > 4 => Rank9Sel::build_from_bits(hinted(bits(a[0])?, a[4])?, flag(a[1])?, flag(a[2])?, flag(a[3])?).ok().map(Obj::R9),
            ("da", "new") if a.len() > 3 => {
                let mut d = DArray::from_bits(hinted(bits(a[0])?, a[3])?);
                if flag(a[1])? { d = d.enable_rank(); }
                if flag(a[2])? { d = d.enable_select0(); }
                Some(Obj::Da(d))
            }
            ("da", "build") if a.len() > 4 => DArray::build_from_bits(hinted(bits(a[0])?, a[4])?, flag(a[1])?, flag(a[2])?, flag(a[3])?).ok().map(Obj::Da),
            ("sa", "new") if a.len() > 2 => {
                let mut s = SArray::from_bits(hinted(bits(a[0])?, a[2])?);
                if flag(a[1])? { s = s.enable_rank(); }
                Some(Obj::Sa(s))
            }
            ("sa", "build") if a.len() > 4 => SArray::build_from_bits(hinted(bits(a[0])?, a[4])?, flag(a[1])?, flag(a[2])?, flag(a[3])?).ok().map(Obj::Sa),
            ("r9", "new") => {
                let mut r = Rank9Sel::new(BitVector::from_bits(bits(a[0])?));
                if flag(a[1])? { r = r.select1_hints(); }
                if flag(a[2])? { r = r.select0_hints(); }
                Some(Obj::R9(r))
            }
            ("r9", "from_bv") => {
                let bv = match self.get(a[0])? { Obj::Bv(b) => b.clone(), _ => return Err("not a bv".into()) };
                let mut r = Rank9Sel::new(bv);
                if flag(a[1])? { r = r.select1_hints(); }
                if flag(a[2])? { r = r.select0_hints(); }
                Some(Obj::R9(r))
            }
            ("r9", "build") => Rank9Sel::build_from_bits(bits(a[0])?, flag(a[1])?, flag(a[2])?, flag(a[3])?).ok().map(Obj::R9),
            ("da", "new") => {
                let mut d = DArray::from_bits(bits(a[0])?);
                if flag(a[1])? { d = d.enable_rank(); }
                if flag(a[2])? { d = d.enable_select0(); }
                Some(Obj::Da(d))
            }
            ("da", "build") => DArray::build_from_bits(bits(a[0])?, flag(a[1])?, flag(a[2])?, flag(a[3])?).ok().map(Obj::Da),
            ("sa", "new") => {
                let mut s = SArray::from_bits(bits(a[0])?);
                if flag(a[1])? { s = s.enable_rank(); }
                Some(Obj::Sa(s))
            }
            ("sa", "build") => SArray::build_from_bits(bits(a[0])?, flag(a[1])?, flag(a[2])?, flag(a[3])?).ok().map(Obj::Sa),
            ("efb", "new") => EliasFanoBuilder::new(num(a[0])?, num(a[1])?).ok().map(Obj::Efb),
            ("ef", "build") => {
                // consumes the builder; optional rank flag
                let b = match self.objs.remove(&num(a[0])?) { Some(Obj::Efb(b)) => b, _ => return Err("not a builder".into()) };
                let mut e = b.build();
                if a.len() > 1 && flag(a[1])? { e = e.enable_rank(); }
                Some(Obj::Ef(e))
            }
            ("ef", "from_bits") => EliasFano::from_bits(bits(a[0])?).ok().map(|e| if a.len() > 1 && a[1] == "1" { e.enable_rank() } else { e }).map(Obj::Ef),
            ("ef", "default") => Some(Obj::Ef(EliasFano::default())),
            ("cv", "new") => CompactVector::new(num(a[0])?).ok().map(Obj::Cv),
            ("cv", "with_capacity") => CompactVector::with_capacity(num(a[0])?, num(a[1])?).ok().map(Obj::Cv),
            ("cv", "from_int") => CompactVector::from_int(num(a[0])?, num(a[1])?, num(a[2])?).ok().map(Obj::Cv),
            ("cv", "from_slice") => CompactVector::from_slice(&list(a[0])?).ok().map(Obj::Cv),
            ("cv", "from_slice_i64") => CompactVector::from_slice(&ilist(a[0])?).ok().map(Obj::Cv),
            ("cv", "from_slice_u8") => CompactVector::from_slice(&l8(a[0])?).ok().map(Obj::Cv),
            ("cv", "from_slice_u32") => CompactVector::from_slice(&l32(a[0])?).ok().map(Obj::Cv),
            ("cv", "build") => CompactVector::build_from_slice(&list(a[0])?).ok().map(Obj::Cv),
            ("cv", "default") => Some(Obj::Cv(CompactVector::default())),
            ("db", "from_slice") => DacsByte::from_slice(&list(a[0])?).ok().map(Obj::Db),
            ("db", "from_slice_i64") => DacsByte::from_slice(&ilist(a[0])?).ok().map(Obj::Db),
            ("db", "from_slice_u8") => DacsByte::from_slice(&l8(a[0])?).ok().map(Obj::Db),
            ("db", "from_slice_u32") => DacsByte::from_slice(&l32(a[0])?).ok().map(Obj::Db),
            ("db", "build") => DacsByte::build_from_slice(&list(a[0])?).ok().map(Obj::Db),
            ("db", "default") => Some(Obj::Db(DacsByte::default())),
            ("do", "from_slice") => {
                let l = if a[0] == "none" { None } else { Some(num(a[0])?) };
                DacsOpt::from_slice(&list(a[1])?, l).ok().map(Obj::Do)
            }
            ("do", "from_slice_i64") => {
                let l = if a[0] == "none" { None } else { Some(num(a[0])?) };
                DacsOpt::from_slice(&ilist(a[1])?, l).ok().map(Obj::Do)
            }
            ("do", "build") => DacsOpt::build_from_slice(&list(a[0])?).ok().map(Obj::Do),
            ("do", "default") => Some(Obj::Do(DacsOpt::default())),
            ("ps", "from_slice") => PrefixSummedEliasFano::from_slice(&list(a[0])?).ok().map(Obj::Ps),
            ("ps", "from_slice_i64") => PrefixSummedEliasFano::from_slice(&ilist(a[0])?).ok().map(Obj::Ps),
            ("ps", "from_slice_u8") => PrefixSummedEliasFano::from_slice(&l8(a[0])?).ok().map(Obj::Ps),
            ("ps", "from_slice_u32") => PrefixSummedEliasFano::from_slice(&l32(a[0])?).ok().map(Obj::Ps),
            ("ps", "build") => PrefixSummedEliasFano::build_from_slice(&list(a[0])?).ok().map(Obj::Ps),
            (k, "from_cv") if k == "wmr" || k == "wmd" || k == "wmb" => {
                // the sequence as an existing CompactVector (any width, any construction history)
                let cv = match self.get(a[0])? { Obj::Cv(v) => v.clone(), _ => return Err("not a cv".into()) };
                match k {
                    "wmr" => WaveletMatrix::<Rank9Sel>::new(cv).ok().map(Obj::WmR),
                    "wmd" => WaveletMatrix::<DArray>::new(cv).ok().map(Obj::WmD),
                    _ => WaveletMatrix::<BitVector>::new(cv).ok().map(Obj::WmB),
                }
            }
            ("wmr", "new") => WaveletMatrix::<Rank9Sel>::new(cv_from(&list(a[0])?)).ok().map(Obj::WmR),
            ("wmd", "new") => WaveletMatrix::<DArray>::new(cv_from(&list(a[0])?)).ok().map(Obj::WmD),
            ("wmb", "new") => WaveletMatrix::<BitVector>::new(cv_from(&list(a[0])?)).ok().map(Obj::WmB),
            (_, "deser") => {
                // new <id> <kind> deser <src>: deserialize the bytes of <src> as <kind>
                let src = self.get(a[0])?;
                let b = for_ser!(src, x => ser_bytes(x).0);
                deser(kind, &b)?
            }
            (_, "clone") => {
                let src = self.get(a[0])?;
                Some(match src {
                    Obj::Bv(x) => Obj::Bv(x.clone()),
                    Obj::R9(x) => Obj::R9(x.clone()),
                    Obj::Da(x) => Obj::Da(x.clone()),
                    Obj::Sa(x) => Obj::Sa(x.clone()),
                    Obj::Ef(x) => Obj::Ef(x.clone()),
                    Obj::Cv(x) => Obj::Cv(x.clone()),
                    Obj::Db(x) => Obj::Db(x.clone()),
                    Obj::Do(x) => Obj::Do(x.clone()),
                    Obj::Ps(x) => Obj::Ps(x.clone()),
                    Obj::WmR(x) => Obj::WmR(x.clone()),
                    Obj::WmD(x) => Obj::WmD(x.clone()),
                    Obj::WmB(x) => Obj::WmB(x.clone()),
                    Obj::Efb(_) => return Err("builder is not Clone".into()),
                })
            }
            _ => return Err(format!("bad constructor {kind} {ctor}")),
        };
        Ok(match o {
            Some(o) => {
                self.objs.insert(id, o);
                "ok".into()
            }
            None => {
                self.objs.remove(&id);
                "err".into()
            }
        })
    }

    fn query(&self, t: &[&str]) -> Res {
        // q <id> <method> args...
        let o = self.get(t[1])?;
        let (m, a) = (t[2], &t[3..]);
        match m {
            "ser" => return Ok(for_ser!(o, x => ser_line(x))),
            "size_in_bytes" => return Ok(for_ser!(o, x => x.size_in_bytes().to_string())),
            "rt" => return Ok(for_ser!(o, x => rt_line(x, num(a[0])?))),
            "trunc" => return for_ser!(o, x => trunc_line(x, a[0])),
            "sched" => return for_ser!(o, x => sched_line(x, a[0])),
            "wfail" => return for_ser!(o, x => wfail_line(x, a[0], a[1])),
            _ => {}
        }
        Ok(match o {
            Obj::Bv(b) => match m {
                "len" => b.len().to_string(),
                "is_empty" => (b.is_empty() as u8).to_string(),
                "num_words" => b.num_words().to_string(),
                "words" => words_hex(b.words()),
                "get_bit" => ob(b.get_bit(num(a[0])?)),
                "get_bits" => on(b.get_bits(num(a[0])?, num(a[1])?)),
                "get_word64" => on(b.get_word64(num(a[0])?)),
                "predecessor1" => on(b.predecessor1(num(a[0])?)),
                "predecessor0" => on(b.predecessor0(num(a[0])?)),
                "successor1" => on(b.successor1(num(a[0])?)),
                "successor0" => on(b.successor0(num(a[0])?)),
                _ => bitq(b, m, a)?,
            },
            Obj::R9(b) => match m {
                "len" => b.len().to_string(),
                "is_empty" => (b.is_empty() as u8).to_string(),
                "words" => words_hex(b.bit_vector().words()),
                _ => bitq(b, m, a)?,
            },
            Obj::Da(b) => match m {
                "len" => b.len().to_string(),
                "is_empty" => (b.is_empty() as u8).to_string(),
                "has_rank" => (b.has_rank() as u8).to_string(),
                "has_select0" => (b.has_select0() as u8).to_string(),
                "words" => words_hex(b.bit_vector().words()),
                _ => bitq(b, m, a)?,
            },
            Obj::Sa(b) => match m {
                "len" => b.len().to_string(),
                "is_empty" => (b.is_empty() as u8).to_string(),
                "has_rank" => (b.has_rank() as u8).to_string(),
                "predecessor1" => on(b.predecessor1(num(a[0])?)),
                "successor1" => on(b.successor1(num(a[0])?)),
                _ => bitq(b, m, a)?,
            },
            Obj::Efb(b) => match m {
                "universe" => b.universe().to_string(),
                "num_vals" => b.num_vals().to_string(),
                _ => return Err(format!("bad efb query {m}")),
            },
            Obj::Ef(e) => match m {
                "len" => e.len().to_string(),
                "is_empty" => (e.is_empty() as u8).to_string(),
                "universe" => e.universe().to_string(),
                "has_rank" => (e.has_rank() as u8).to_string(),
                "select" => on(e.select(num(a[0])?)),
                "delta" => on(e.delta(num(a[0])?)),
                "rank" => on(e.rank(num(a[0])?)),
                "predecessor" => on(e.predecessor(num(a[0])?)),
                "successor" => on(e.successor(num(a[0])?)),
                "binsearch" => on(e.binsearch(num(a[0])?)),
                "binsearch_range" => on(e.binsearch_range(range(a[0])?, num(a[1])?)),
                _ => return Err(format!("bad ef query {m}")),
            },
            Obj::Cv(v) => match m {
                "len" => v.len().to_string(),
                "is_empty" => (v.is_empty() as u8).to_string(),
                "width" => v.width().to_string(),
                "num_vals" => v.num_vals().to_string(),
                "get_int" => on(v.get_int(num(a[0])?)),
                "access" => on(v.access(num(a[0])?)),
                _ => return Err(format!("bad cv query {m}")),
            },
            Obj::Db(v) => match m {
                "len" => v.len().to_string(),
                "is_empty" => (v.is_empty() as u8).to_string(),
                "num_vals" => v.num_vals().to_string(),
                "num_levels" => v.num_levels().to_string(),
                "widths" => fl(&v.widths()),
                "access" => on(v.access(num(a[0])?)),
                _ => return Err(format!("bad db query {m}")),
            },
            Obj::Do(v) => match m {
                "len" => v.len().to_string(),
                "is_empty" => (v.is_empty() as u8).to_string(),
                "num_vals" => v.num_vals().to_string(),
                "num_levels" => v.num_levels().to_string(),
                "widths" => fl(&v.widths()),
                "access" => on(v.access(num(a[0])?)),
                "brute_cost" => "-".to_string(), // answered by the model and the specification only
                _ => return Err(format!("bad do query {m}")),
            },
            Obj::Ps(v) => match m {
                "len" => v.len().to_string(),
                "is_empty" => (v.is_empty() as u8).to_string(),
                "num_vals" => v.num_vals().to_string(),
                "sum" => v.sum().to_string(),
                "access" => on(v.access(num(a[0])?)),
                _ => return Err(format!("bad ps query {m}")),
            },
            Obj::WmR(w) => wmq(w, m, a)?,
            Obj::WmD(w) => wmq(w, m, a)?,
            Obj::WmB(w) => wmq(w, m, a)?,
        })
    }

    fn mutate(&mut self, t: &[&str]) -> Res {
        // m <id> <method> args...
        let id = num(t[1])?;
        let (m, a) = (t[2], &t[3..]);
        let o = self.objs.get_mut(&id).ok_or_else(|| "noobj".to_string())?;
        Ok(match o {
            Obj::Bv(b) => match m {
                "push_bit" => { b.push_bit(flag(a[0])?); "ok".into() }
                "push_bits" => okerr(&b.push_bits(num(a[0])?, num(a[1])?)),
                "set_bit" => okerr(&b.set_bit(num(a[0])?, flag(a[1])?)),
                "set_bits" => okerr(&b.set_bits(num(a[0])?, num(a[1])?, num(a[2])?)),
                "extend" if a.len() > 1 => { b.extend(hinted(bits(a[0])?, a[1])?); "ok".into() }
                "extend" => { b.extend(bits(a[0])?); "ok".into() }
                "shrink_to_fit" => { b.shrink_to_fit(); "ok".into() }
                _ => return Err(format!("bad bv mutator {m}")),
            },
            Obj::Cv(v) => match m {
                "push_int" => okerr(&v.push_int(num(a[0])?)),
                "set_int" => okerr(&v.set_int(num(a[0])?, num(a[1])?)),
                "extend" => okerr(&v.extend(list(a[0])?)),
                _ => return Err(format!("bad cv mutator {m}")),
            },
            // enabling an index (again) on a built structure
            Obj::R9(r) => match m {
                "select1_hints" => { *r = r.clone().select1_hints(); "ok".into() }
                "select0_hints" => { *r = r.clone().select0_hints(); "ok".into() }
                _ => return Err(format!("bad r9 mutator {m}")),
            },
            Obj::Da(d) => match m {
                "enable_rank" => { *d = d.clone().enable_rank(); "ok".into() }
                "enable_select0" => { *d = d.clone().enable_select0(); "ok".into() }
                _ => return Err(format!("bad da mutator {m}")),
            },
            Obj::Sa(x) => match m {
                "enable_rank" => { *x = x.clone().enable_rank(); "ok".into() }
                _ => return Err(format!("bad sa mutator {m}")),
            },
            Obj::Ef(e) => match m {
                "enable_rank" => { *e = e.clone().enable_rank(); "ok".into() }
                _ => return Err(format!("bad ef mutator {m}")),
            },
            Obj::Efb(b) => match m {
                "push" => okerr(&b.push(num(a[0])?)),
                "extend" => okerr(&b.extend(list(a[0])?)),
                _ => return Err(format!("bad efb mutator {m}")),
            },
            _ => return Err("object has no mutators".into()),
        })
    }

    fn iterate(&self, t: &[&str]) -> Res {
        // it <id> <kind> <arg> <ops>
        let o = self.get(t[1])?;
        let (kind, arg, ops) = (t[2], t[3], t[4]);
        let shn = |v: usize| v.to_string();
        match (o, kind) {
            (Obj::Bv(b), "iter") => run_iter(b.iter(), ops, |v: bool| (v as u8).to_string()),
            (Obj::Cv(v), "iter") => run_iter(v.iter(), ops, shn),
            (Obj::Db(v), "iter") => run_iter(v.iter(), ops, shn),
            (Obj::Do(v), "iter") => run_iter(v.iter(), ops, shn),
            (Obj::Ps(v), "iter") => run_iter(v.iter(), ops, shn),
            (Obj::WmR(v), "iter") => run_iter(v.iter(), ops, shn),
            (Obj::WmD(v), "iter") => run_iter(v.iter(), ops, shn),
            (Obj::WmB(v), "iter") => run_iter(v.iter(), ops, shn),
            (Obj::Ef(e), "iter") => {
                let k = num(arg)?;
                let mut out: Vec<String> = vec![];
                let it = catch_unwind(AssertUnwindSafe(|| e.iter(k)));
                match it {
                    Err(_) => Ok("panic".into()),
                    Ok(it) => {
                        let r = run_iter(it, ops, shn)?;
                        out.push(r);
                        Ok(out.join(";"))
                    }
                }
            }
            (Obj::Bv(b), "unary") => {
                let p = num(arg)?;
                let it = catch_unwind(AssertUnwindSafe(|| b.unary_iter(p)));
                let mut it = match it { Err(_) => return Ok("panic".into()), Ok(it) => it };
                let mut out: Vec<String> = vec![];
                for op in ops.split(',') {
                    let r = catch_unwind(AssertUnwindSafe(|| -> Res {
                        Ok(if op == "n" {
                            on(it.next())
                        } else if op == "h" {
                            let (lo, hi) = it.size_hint();
                            format!("({},{})", lo, match hi { Some(h) => h.to_string(), None => "inf".into() })
                        } else if op == "p" {
                            it.position().to_string()
                        } else if let Some(k) = op.strip_prefix("s1:") {
                            on(it.skip1(num(k)?))
                        } else if let Some(k) = op.strip_prefix("s0:") {
                            on(it.skip0(num(k)?))
                        } else {
                            return Err(format!("bad unary op {op}"));
                        })
                    }));
                    match r {
                        Ok(Ok(s)) => out.push(s),
                        Ok(Err(e)) => return Err(e),
                        Err(_) => { out.push("panic".into()); break; }
                    }
                }
                Ok(out.join(";"))
            }
            _ => Err(format!("bad iterator {kind}")),
        }
    }

    fn eq(&self, t: &[&str]) -> Res {
        let (x, y) = (self.get(t[1])?, self.get(t[2])?);
        Ok(((match (x, y) {
            (Obj::Bv(a), Obj::Bv(b)) => a == b,
            (Obj::R9(a), Obj::R9(b)) => a == b,
            (Obj::Da(a), Obj::Da(b)) => a == b,
            (Obj::Sa(a), Obj::Sa(b)) => a == b,
            (Obj::Ef(a), Obj::Ef(b)) => a == b,
            (Obj::Cv(a), Obj::Cv(b)) => a == b,
            (Obj::Db(a), Obj::Db(b)) => a == b,
            (Obj::Do(a), Obj::Do(b)) => a == b,
            (Obj::Ps(a), Obj::Ps(b)) => a == b,
            (Obj::WmR(a), Obj::WmR(b)) => a == b,
            (Obj::WmD(a), Obj::WmD(b)) => a == b,
            (Obj::WmB(a), Obj::WmB(b)) => a == b,
            _ => return Err("eq on different kinds".into()),
        }) as u8)
            .to_string())
    }

    fn rt2(&self, t: &[&str]) -> Res {
        let (x, y) = (self.get(t[1])?, self.get(t[2])?);
        // back-to-back: a handful of representative pairings
        Ok(match (x, y) {
            (Obj::Bv(a), Obj::Bv(b)) => rt2_line(a, b),
            (Obj::Bv(a), Obj::R9(b)) => rt2_line(a, b),
            (Obj::R9(a), Obj::Da(b)) => rt2_line(a, b),
            (Obj::Da(a), Obj::Sa(b)) => rt2_line(a, b),
            (Obj::Sa(a), Obj::Ef(b)) => rt2_line(a, b),
            (Obj::Ef(a), Obj::Cv(b)) => rt2_line(a, b),
            (Obj::Cv(a), Obj::Db(b)) => rt2_line(a, b),
            (Obj::Db(a), Obj::Do(b)) => rt2_line(a, b),
            (Obj::Do(a), Obj::Ps(b)) => rt2_line(a, b),
            (Obj::Ps(a), Obj::WmR(b)) => rt2_line(a, b),
            (Obj::WmR(a), Obj::WmD(b)) => rt2_line(a, b),
            (Obj::WmD(a), Obj::WmB(b)) => rt2_line(a, b),
            (Obj::WmB(a), Obj::Bv(b)) => rt2_line(a, b),
            (Obj::Cv(a), Obj::Cv(b)) => rt2_line(a, b),
            (Obj::R9(a), Obj::R9(b)) => rt2_line(a, b),
            (Obj::Da(a), Obj::Da(b)) => rt2_line(a, b),
            _ => return Err("rt2 pairing not supported".into()),
        })
    }
}

fn broadword(t: &[&str]) -> Res {
    use sucds::broadword as bw;
    let x = usize::from_str_radix(t[2], 16).map_err(|e| format!("bad word: {e}"))?;
    Ok(match t[1] {
        "popcount" => bw::popcount(x).to_string(),
        "lsb" => on(bw::lsb(x)),
        "msb" => on(bw::msb(x)),
        "select_in_word" => on(bw::select_in_word(x, num(t[3])?)),
        _ => return Err(format!("bad broadword fn {}", t[1])),
    })
}
fn utils(t: &[&str]) -> Res {
    Ok(match t[1] {
        "needed_bits" => sucds::utils::needed_bits(num(t[2])?).to_string(),
        "ceiled_divide" => sucds::utils::ceiled_divide(num(t[2])?, num(t[3])?).to_string(),
        _ => return Err(format!("bad utils fn {}", t[1])),
    })
}
/// the operations of the Rust subset as the compiler implements them in this build (overflow checks on or off):
/// `sem <op> <a> [<b>]`; operands go through `black_box` so that nothing is folded at compile time. Compared with
/// `Sucds/Model/RustSem.lean` + `Model/Prim.lean`, the semantics library of the function-body translator.
fn sem(t: &[&str]) -> Res {
    use std::hint::black_box as bb;
    let a: usize = bb(num(t[2])?);
    let b: usize = if t.len() > 3 { bb(num(t[3])?) } else { 0 };
    let ia = a as isize; let ib = b as isize;
    Ok(match t[1] {
        "add" => (a + b).to_string(),
        "sub" => (a - b).to_string(),
        "mul" => (a * b).to_string(),
        "shl" => (a << b).to_string(),
        "shr" => (a >> b).to_string(),
        "div" => (a / b).to_string(),
        "rem" => (a % b).to_string(),
        "wrapping_add" => a.wrapping_add(b).to_string(),
        "wrapping_sub" => a.wrapping_sub(b).to_string(),
        "wrapping_mul" => a.wrapping_mul(b).to_string(),
        "wrapping_shl" => a.wrapping_shl(b as u32).to_string(),
        "wrapping_shr" => a.wrapping_shr(b as u32).to_string(),
        "saturating_add" => a.saturating_add(b).to_string(),
        "saturating_sub" => a.saturating_sub(b).to_string(),
        "not" => (!a).to_string(),
        "and" => (a & b).to_string(),
        "or" => (a | b).to_string(),
        "xor" => (a ^ b).to_string(),
        "count_ones" => a.count_ones().to_string(),
        "trailing_zeros" => a.trailing_zeros().to_string(),
        "leading_zeros" => a.leading_zeros().to_string(),
        "as_u8" => (a as u8 as usize).to_string(),
        "as_u16" => (a as u16 as usize).to_string(),
        "as_u32" => (a as u32 as usize).to_string(),
        "as_isize" => ia.to_string(),
        "isize_as_usize" => (bb(ia) as usize).to_string(),
        "iadd" => (ia + ib).to_string(),
        "isub" => (ia - ib).to_string(),
        "ineg" => (-ia).to_string(),
        "min" => a.min(b).to_string(),
        "max" => a.max(b).to_string(),
        "b2u" => ((a != 0) as usize).to_string(),
        "shl_const9" => (a << 9).to_string(),
        "shl_const8" => (a << 8).to_string(),
        _ => return Err(format!("bad sem op {}", t[1])),
    })
}
/// primitive and wrapper serialization: `prim <type> <value>` → bytes and round trip
fn prim(t: &[&str]) -> Res {
    fn go<S: Serializable + PartialEq>(x: S) -> String {
        format!("{} rt={}", ser_line(&x), rt_line(&x, 3))
    }
    Ok(match t[1] {
        "u8" => go(num(t[2])? as u8),
        "u16" => go(num(t[2])? as u16),
        "u32" => go(num(t[2])? as u32),
        "u64" => go(num(t[2])? as u64),
        "usize" => go(num(t[2])?),
        "i8" => go(t[2].parse::<i8>().map_err(|e| e.to_string())?),
        "i16" => go(t[2].parse::<i16>().map_err(|e| e.to_string())?),
        "i32" => go(t[2].parse::<i32>().map_err(|e| e.to_string())?),
        "i64" => go(t[2].parse::<i64>().map_err(|e| e.to_string())?),
        "isize" => go(t[2].parse::<isize>().map_err(|e| e.to_string())?),
        "bool" => go(flag(t[2])?),
        "vec_u16" => go(list(t[2])?.into_iter().map(|x| x as u16).collect::<Vec<u16>>()),
        "vec_usize" => go(list(t[2])?),
        "vec_i64" => go(ilist(t[2])?),
        "opt_usize" => go(if t[2] == "none" { None } else { Some(num(t[2])?) }),
        "vec_opt_bool" => go(t[2].split(',').filter(|s| *s != "-").map(|s| match s { "n" => None, "1" => Some(true), _ => Some(false) }).collect::<Vec<Option<bool>>>()),
        "opt_vec_usize" => go(if t[2] == "none" { None } else { Some(list(t[2])?) }),
        "vec_vec_u8" => go(t[2].split('/').filter(|s| *s != "").map(|s| list(s).map(|v| v.into_iter().map(|x| x as u8).collect::<Vec<u8>>())).collect::<Result<Vec<Vec<u8>>, String>>()?),
        _ => return Err(format!("bad prim type {}", t[1])),
    })
}

fn main() {
    // requests run on a thread with the default stack of a spawned thread (2 MiB) rather than on the 8 MiB main stack:
    // that is what `cargo test` and a client's worker threads give the crate
    let h = std::thread::Builder::new().stack_size(2 << 20).spawn(real_main).unwrap();
    if h.join().is_err() {
        std::process::exit(101);
    }
}

fn real_main() {
    std::panic::set_hook(Box::new(|_| {}));
    let args: Vec<String> = std::env::args().collect();
    if args.len() > 1 && args[1] == "--config" {
        println!(
            "checked={} intrinsics={}",
            cfg!(debug_assertions) as u8,
            cfg!(feature = "intrinsics") as u8
        );
        return;
    }
    let stdin = io::stdin();
    let stdout = io::stdout();
    let mut out = io::BufWriter::new(stdout.lock());
    let mut st = St { objs: HashMap::new() };
    // watchdog: a single request that does not answer within the limit aborts the process; the
    // orchestrator attributes the abort to the request (non-termination is a failure of the oracle)
    let limit: u64 = std::env::var("HARNESS_REQUEST_LIMIT_S").ok().and_then(|s| s.parse().ok()).unwrap_or(20);
    let progress = std::sync::Arc::new(std::sync::atomic::AtomicU64::new(0));
    {
        let progress = progress.clone();
        std::thread::spawn(move || {
            let mut last = 0u64;
            let mut since = std::time::Instant::now();
            loop {
                std::thread::sleep(std::time::Duration::from_millis(250));
                let cur = progress.load(std::sync::atomic::Ordering::Relaxed);
                if cur != last {
                    last = cur;
                    since = std::time::Instant::now();
                } else if cur % 2 == 1 && since.elapsed().as_secs() >= limit {
                    std::process::exit(97);
                }
            }
        });
    }
    for line in stdin.lock().lines() {
        let line = line.unwrap();
        let line = line.trim_end();
        if line.is_empty() || line.starts_with('#') {
            continue;
        }
        let t: Vec<&str> = line.split(' ').collect();
        progress.fetch_add(1, std::sync::atomic::Ordering::Relaxed); // odd = a request is running
        let res: Result<Res, _> = catch_unwind(AssertUnwindSafe(|| match t[0] {
            "case" => {
                st.objs.clear();
                Ok(format!("case {}", t[1..].join(" ")))
            }
            "new" => st.new_obj(&t),
            "q" => st.query(&t),
            "m" => st.mutate(&t),
            "it" => st.iterate(&t),
            "eq" => st.eq(&t),
            "rt2" => st.rt2(&t),
            "bw" => broadword(&t),
            "ut" => utils(&t),
            "sem" => sem(&t),
            "prim" => prim(&t),
            "big" => big::big(&t),
            "bigq" => big::bigq(&t),
            "drop" => {
                st.objs.remove(&num(t[1])?);
                Ok("ok".into())
            }
            _ => Err(format!("bad command {}", t[0])),
        }));
        let s = match res {
            Ok(Ok(s)) => s,
            Ok(Err(e)) => {
                if e == "noobj" { "noobj".to_string() } else { format!("SCRIPT-ERROR {e}") }
            }
            Err(_) => {
                // a panicking constructor leaves no object; a panicking mutator poisons its object
                if t[0] == "m" || t[0] == "new" {
                    if let Ok(id) = num(t[1]) {
                        st.objs.remove(&id);
                    }
                }
                "panic".to_string()
            }
        };
        writeln!(out, "{}", s).unwrap();
        out.flush().unwrap();
        progress.fetch_add(1, std::sync::atomic::Ordering::Relaxed); // even = idle
    }
    out.flush().unwrap();
}
