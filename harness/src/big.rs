//! `big <kind> <n> <seed>`: a self-checking serialization request on a large, compactly described
//! value. Used only by the search for a failing input (`tools/check.py`, after a proof obligation or
//! the correspondence broke): the answer needs no model — the property itself (C08: sizes agree,
//! the reader consumes exactly what was written and yields an equal value; C13: a strict prefix is
//! `Err`, never `Ok`, never a panic) is decided from the fields of the answer.
use super::*;

struct Rng(u64);
impl Rng {
    fn next(&mut self) -> u64 {
        // splitmix64
        self.0 = self.0.wrapping_add(0x9e3779b97f4a7c15);
        let mut z = self.0;
        z = (z ^ (z >> 30)).wrapping_mul(0xbf58476d1ce4e5b9);
        z = (z ^ (z >> 27)).wrapping_mul(0x94d049bb133111eb);
        z ^ (z >> 31)
    }
    fn below(&mut self, n: u64) -> u64 {
        if n == 0 { 0 } else { self.next() % n }
    }
}

fn check<S: Serializable + PartialEq>(x: &S, rng: &mut Rng) -> String {
    let (b, r) = ser_bytes(x);
    let size = b.len();
    let ret = match r {
        Ok(n) => n.to_string(),
        Err(_) => "err".into(),
    };
    let sib = x.size_in_bytes();
    // round trip with a sentinel behind the value
    let mut b2 = b.clone();
    b2.extend_from_slice(&[0xa5, 0x5a, 0xc3, 0x3c, 0x0f, 0xf0, 0x99, 0x66, 0x11]);
    let (consumed, eq) = {
        let mut cur = io::Cursor::new(&b2[..]);
        match catch_unwind(AssertUnwindSafe(|| S::deserialize_from(&mut cur))) {
            Ok(Ok(y)) => (cur.position().to_string(), ((y == *x) as u8).to_string()),
            Ok(Err(_)) => ("err".into(), "-".into()),
            Err(_) => ("panic".into(), "-".into()),
        }
    };
    // the same bytes in pieces with interruptions
    let sched = {
        let mut rd = SchedReader { data: &b, pos: 0, sched: vec![Some(4093), None, Some(70001), Some(1)], step: 0 };
        match catch_unwind(AssertUnwindSafe(|| S::deserialize_from(&mut rd))) {
            Ok(Ok(y)) => format!("{}/{}", rd.pos, (y == *x) as u8),
            Ok(Err(_)) => "err".into(),
            Err(_) => "panic".into(),
        }
    };
    // strict prefixes: the last 72 offsets, every 8th offset of the last 4 KiB, sampled offsets
    let mut offs: Vec<usize> = vec![0, 1, 7, 8, 9, 15, 16, size / 2];
    offs.extend(size.saturating_sub(72)..size);
    offs.extend((1..512).map(|k| size.saturating_sub(8 * k)));
    for _ in 0..24 {
        offs.push(rng.below(size as u64) as usize);
    }
    offs.sort();
    offs.dedup();
    let (mut tok, mut tpanic) = (0, 0);
    let mut first_bad: Option<usize> = None;
    for &k in &offs {
        if k >= size {
            continue;
        }
        match catch_unwind(AssertUnwindSafe(|| S::deserialize_from(&b[..k]).is_ok())) {
            Ok(false) => {}
            Ok(true) => {
                tok += 1;
                first_bad.get_or_insert(k);
            }
            Err(_) => {
                tpanic += 1;
                first_bad.get_or_insert(k);
            }
        }
    }
    format!(
        "size={} ret={} sib={} consumed={} eq={} sched={} trunc_ok={} trunc_panic={} first_bad={}",
        size, ret, sib, consumed, eq, sched, tok, tpanic, on(first_bad)
    )
}

fn rbits(n: usize, rng: &mut Rng, mode: u64) -> Vec<bool> {
    // mode 0: sparse (about 1 in 1000), 1: half, 2: dense (about 999 in 1000), 3: all zero but 37 ones
    let mut v = Vec::with_capacity(n);
    match mode {
        3 => {
            v.resize(n, false);
            for _ in 0..37.min(n) {
                let i = rng.below(n as u64) as usize;
                v[i] = true;
            }
        }
        _ => {
            for _ in 0..n {
                let r = rng.below(1000);
                v.push(match mode { 0 => r == 0, 1 => r < 500, _ => r != 0 });
            }
        }
    }
    v
}
fn rints(n: usize, rng: &mut Rng, bits: u32) -> Vec<usize> {
    (0..n)
        .map(|_| {
            let w = 1 + rng.below(bits as u64) as u32;
            (rng.next() >> (64 - w)) as usize
        })
        .collect()
}

pub fn big(t: &[&str]) -> Res {
    if t.len() < 4 {
        return Err("big <kind> <n> <seed>".into());
    }
    let n = num(t[2])?;
    let seed = num(t[3])? as u64;
    let mut rng = Rng(seed ^ (n as u64).rotate_left(17));
    let mode = seed % 4;
    macro_rules! tryb {
        ($e:expr) => {
            match $e {
                Ok(v) => v,
                Err(_) => return Ok("ctor-err".into()),
            }
        };
    }
    Ok(match t[1] {
        "vec_u8" => check(&(0..n).map(|_| rng.next() as u8).collect::<Vec<u8>>(), &mut rng),
        "vec_u16" => check(&(0..n).map(|_| rng.next() as u16).collect::<Vec<u16>>(), &mut rng),
        "vec_u32" => check(&(0..n).map(|_| rng.next() as u32).collect::<Vec<u32>>(), &mut rng),
        "vec_u64" => check(&(0..n).map(|_| rng.next()).collect::<Vec<u64>>(), &mut rng),
        "vec_usize" => check(&(0..n).map(|_| rng.next() as usize).collect::<Vec<usize>>(), &mut rng),
        "vec_i64" => check(&(0..n).map(|_| rng.next() as i64).collect::<Vec<i64>>(), &mut rng),
        "vec_bool" => check(&(0..n).map(|_| rng.next() & 1 == 1).collect::<Vec<bool>>(), &mut rng),
        "bv" => check(&BitVector::from_bits(rbits(n, &mut rng, mode)), &mut rng),
        "r9" => check(&Rank9Sel::new(BitVector::from_bits(rbits(n, &mut rng, mode))).select1_hints().select0_hints(), &mut rng),
        "r9s1" => check(&Rank9Sel::new(BitVector::from_bits(rbits(n, &mut rng, mode))).select1_hints(), &mut rng),
        "r9s0" => check(&Rank9Sel::new(BitVector::from_bits(rbits(n, &mut rng, mode))).select0_hints(), &mut rng),
        "da" => check(&DArray::from_bits(rbits(n, &mut rng, mode)).enable_rank().enable_select0(), &mut rng),
        "da1" => check(&DArray::from_bits(rbits(n, &mut rng, mode)), &mut rng),
        "sa" => check(&SArray::from_bits(rbits(n, &mut rng, if mode == 2 { 0 } else { mode })).enable_rank(), &mut rng),
        "cv" => {
            let w = 1 + (seed % 64) as u32;
            let xs: Vec<usize> = (0..n).map(|_| (rng.next() >> (64 - w)) as usize).collect();
            check(&tryb!(CompactVector::from_slice(&xs)), &mut rng)
        }
        "db" => check(&tryb!(DacsByte::from_slice(&rints(n, &mut rng, 8 + (seed % 40) as u32))), &mut rng),
        "do" => check(&tryb!(DacsOpt::from_slice(&rints(n, &mut rng, 8 + (seed % 40) as u32), None)), &mut rng),
        "ps" => check(&tryb!(PrefixSummedEliasFano::from_slice(&rints(n, &mut rng, 20))), &mut rng),
        "ef" => {
            let gaps = rints(n, &mut rng, 1 + (seed % 24) as u32);
            let mut acc = 0usize;
            let vals: Vec<usize> = gaps.iter().map(|g| { acc += g; acc }).collect();
            let mut b = tryb!(EliasFanoBuilder::new(acc + 1, n));
            tryb!(b.extend(vals));
            check(&b.build().enable_rank(), &mut rng)
        }
        "wm" => {
            let cv = tryb!(CompactVector::from_slice(&rints(n, &mut rng, 1 + (seed % 16) as u32)));
            check(&tryb!(WaveletMatrix::<Rank9Sel>::new(cv)), &mut rng)
        }
        _ => return Err(format!("bad big kind {}", t[1])),
    })
}
