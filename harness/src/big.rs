//! `big <kind> <n> <seed>`: a self-checking serialization request on a large, compactly described
//! value. Used only by the search for a failing input (`tools/check.py`, after a proof obligation or
//! the correspondence broke): the answer needs no model — the property itself (C08: sizes agree,
//! the reader consumes exactly what was written and yields an equal value; C13: a strict prefix is
//! `Err`, never `Ok`, never a panic) is decided from the fields of the answer.
use super::*;

struct Rng(u64);
impl Rng {
    fn next(&mut self) -> u64 {
        // splitmix64
        self.0 = self.0.wrapping_add(0x9e3779b97f4a7c15);
        let mut z = self.0;
        z = (z ^ (z >> 30)).wrapping_mul(0xbf58476d1ce4e5b9);
        z = (z ^ (z >> 27)).wrapping_mul(0x94d049bb133111eb);
        z ^ (z >> 31)
    }
    fn below(&mut self, n: u64) -> u64 {
        if n == 0 { 0 } else { self.next() % n }
    }
}

fn check<S: Serializable + PartialEq>(x: &S, rng: &mut Rng) -> String {
    let (b, r) = ser_bytes(x);
    let size = b.len();
    let ret = match r {
        Ok(n) => n.to_string(),
        Err(_) => "err".into(),
    };
    let sib = x.size_in_bytes();
    // round trip with a sentinel behind the value
    let mut b2 = b.clone();
    b2.extend_from_slice(&[0xa5, 0x5a, 0xc3, 0x3c, 0x0f, 0xf0, 0x99, 0x66, 0x11]);
    let (consumed, eq) = {
        let mut cur = io::Cursor::new(&b2[..]);
        match catch_unwind(AssertUnwindSafe(|| S::deserialize_from(&mut cur))) {
            Ok(Ok(y)) => (cur.position().to_string(), ((y == *x) as u8).to_string()),
            Ok(Err(_)) => ("err".into(), "-".into()),
            Err(_) => ("panic".into(), "-".into()),
        }
    };
    // the same bytes in pieces with interruptions
    let sched = {
        let mut rd = SchedReader { data: &b, pos: 0, sched: vec![Some(4093), None, Some(70001), Some(1)], step: 0 };
        match catch_unwind(AssertUnwindSafe(|| S::deserialize_from(&mut rd))) {
            Ok(Ok(y)) => format!("{}/{}", rd.pos, (y == *x) as u8),
            Ok(Err(_)) => "err".into(),
            Err(_) => "panic".into(),
        }
    };
    // strict prefixes: the last 72 offsets, every 8th offset of the last 4 KiB, sampled offsets
    let mut offs: Vec<usize> = vec![0, 1, 7, 8, 9, 15, 16, size / 2];
    offs.extend(size.saturating_sub(72)..size);
    offs.extend((1..512).map(|k| size.saturating_sub(8 * k)));
    for _ in 0..24 {
        offs.push(rng.below(size as u64) as usize);
    }
    offs.sort();
    offs.dedup();
    let (mut tok, mut tpanic) = (0, 0);
    let mut first_bad: Option<usize> = None;
    for &k in &offs {
        if k >= size {
            continue;
        }
        match catch_unwind(AssertUnwindSafe(|| S::deserialize_from(&b[..k]).is_ok())) {
            Ok(false) => {}
            Ok(true) => {
                tok += 1;
                first_bad.get_or_insert(k);
            }
            Err(_) => {
                tpanic += 1;
                first_bad.get_or_insert(k);
            }
        }
    }
    format!(
        "size={} ret={} sib={} consumed={} eq={} sched={} trunc_ok={} trunc_panic={} first_bad={}",
        size, ret, sib, consumed, eq, sched, tok, tpanic, on(first_bad)
    )
}

fn rbits(n: usize, rng: &mut Rng, mode: u64) -> Vec<bool> {
    // mode 0: sparse (about 1 in 1000), 1: half, 2: dense (about 999 in 1000), 3: all zero but 37 ones
    let mut v = Vec::with_capacity(n);
    match mode {
        3 => {
            v.resize(n, false);
            for _ in 0..37.min(n) {
                let i = rng.below(n as u64) as usize;
                v[i] = true;
            }
        }
        _ => {
            for _ in 0..n {
                let r = rng.below(1000);
                v.push(match mode { 0 => r == 0, 1 => r < 500, _ => r != 0 });
            }
        }
    }
    v
}
fn rints(n: usize, rng: &mut Rng, bits: u32) -> Vec<usize> {
    (0..n)
        .map(|_| {
            let w = 1 + rng.below(bits as u64) as u32;
            (rng.next() >> (64 - w)) as usize
        })
        .collect()
}

pub fn big(t: &[&str]) -> Res {
    if t.len() < 4 {
        return Err("big <kind> <n> <seed>".into());
    }
    let n = num(t[2])?;
    let seed = num(t[3])? as u64;
    let mut rng = Rng(seed ^ (n as u64).rotate_left(17));
    let mode = seed % 4;
    macro_rules! tryb {
        ($e:expr) => {
            match $e {
                Ok(v) => v,
                Err(_) => return Ok("ctor-err".into()),
            }
        };
    }
    Ok(match t[1] {
        "vec_u8" => check(&(0..n).map(|_| rng.next() as u8).collect::<Vec<u8>>(), &mut rng),
        "vec_u16" => check(&(0..n).map(|_| rng.next() as u16).collect::<Vec<u16>>(), &mut rng),
        "vec_u32" => check(&(0..n).map(|_| rng.next() as u32).collect::<Vec<u32>>(), &mut rng),
        "vec_u64" => check(&(0..n).map(|_| rng.next()).collect::<Vec<u64>>(), &mut rng),
        "vec_usize" => check(&(0..n).map(|_| rng.next() as usize).collect::<Vec<usize>>(), &mut rng),
        "vec_i64" => check(&(0..n).map(|_| rng.next() as i64).collect::<Vec<i64>>(), &mut rng),
        "vec_bool" => check(&(0..n).map(|_| rng.next() & 1 == 1).collect::<Vec<bool>>(), &mut rng),
        "bv" => check(&BitVector::from_bits(rbits(n, &mut rng, mode)), &mut rng),
        "r9" => check(&Rank9Sel::new(BitVector::from_bits(rbits(n, &mut rng, mode))).select1_hints().select0_hints(), &mut rng),
        "r9s1" => check(&Rank9Sel::new(BitVector::from_bits(rbits(n, &mut rng, mode))).select1_hints(), &mut rng),
        "r9s0" => check(&Rank9Sel::new(BitVector::from_bits(rbits(n, &mut rng, mode))).select0_hints(), &mut rng),
        "da" => check(&DArray::from_bits(rbits(n, &mut rng, mode)).enable_rank().enable_select0(), &mut rng),
        "da1" => check(&DArray::from_bits(rbits(n, &mut rng, mode)), &mut rng),
        "sa" => check(&SArray::from_bits(rbits(n, &mut rng, if mode == 2 { 0 } else { mode })).enable_rank(), &mut rng),
        "cv" => {
            let w = 1 + (seed % 64) as u32;
            let xs: Vec<usize> = (0..n).map(|_| (rng.next() >> (64 - w)) as usize).collect();
            check(&tryb!(CompactVector::from_slice(&xs)), &mut rng)
        }
        "db" => check(&tryb!(DacsByte::from_slice(&rints(n, &mut rng, 8 + (seed % 40) as u32))), &mut rng),
        "do" => check(&tryb!(DacsOpt::from_slice(&rints(n, &mut rng, 8 + (seed % 40) as u32), None)), &mut rng),
        "ps" => check(&tryb!(PrefixSummedEliasFano::from_slice(&rints(n, &mut rng, 20))), &mut rng),
        "ef" => {
            let gaps = rints(n, &mut rng, 1 + (seed % 24) as u32);
            let mut acc = 0usize;
            let vals: Vec<usize> = gaps.iter().map(|g| { acc += g; acc }).collect();
            let mut b = tryb!(EliasFanoBuilder::new(acc + 1, n));
            tryb!(b.extend(vals));
            check(&b.build().enable_rank(), &mut rng)
        }
        "wm" => {
            let cv = tryb!(CompactVector::from_slice(&rints(n, &mut rng, 1 + (seed % 16) as u32)));
            check(&tryb!(WaveletMatrix::<Rank9Sel>::new(cv)), &mut rng)
        }
        _ => return Err(format!("bad big kind {}", t[1])),
    })
}

// ---------------------------------------------------------------------------------------------
// `bigq <kind> <n> <seed>`: a self-checking query request on a large value: the structure is built from a
// pseudo-random plain sequence kept beside it, and sampled queries (boundaries, neighbourhoods of multiples of
// 2^16, random ones) are compared with the answers computed from the plain sequence. Used like `big`.

struct Tally {
    checked: usize,
    bad: usize,
    first: Option<String>,
}
impl Tally {
    fn eq<T: PartialEq + std::fmt::Debug>(&mut self, what: &str, arg: usize, got: T, want: T) {
        self.checked += 1;
        if got != want {
            self.bad += 1;
            if self.first.is_none() {
                self.first = Some(format!("{}({})={:?},want={:?}", what, arg, got, want).replace(' ', ""));
            }
        }
    }
    fn line(&self, n: usize) -> String {
        format!("n={} checked={} bad={} first_bad={}", n, self.checked, self.bad, self.first.clone().unwrap_or_else(|| "none".into()))
    }
}
fn sample_points(limit: usize, rng: &mut Rng, k: usize) -> Vec<usize> {
    // points in [0, limit]: the ends, neighbourhoods of multiples of 2^16 and of powers of two, random ones
    let mut v = vec![0, 1, 2, 63, 64, 65, 511, 512, 513, limit, limit.saturating_sub(1), limit.saturating_sub(2), limit / 2];
    let mut m = 65536;
    while m <= limit && v.len() < 400 {
        v.extend([m - 1, m, m + 1]);
        m += 65536 * (1 + limit / (65536 * 64));
    }
    let mut p = 1024;
    while p <= limit {
        v.extend([p - 1, p, p + 1]);
        p *= 2;
    }
    for _ in 0..k {
        v.push(rng.below(limit as u64 + 1) as usize);
    }
    v.retain(|&x| x <= limit);
    v.sort();
    v.dedup();
    v
}
fn bits_check<B: BAccess + Rank + Select + NumBits>(b: &B, bits: &[bool], rng: &mut Rng, zeros_too: bool) -> String {
    let n = bits.len();
    let ones: Vec<usize> = (0..n).filter(|&i| bits[i]).collect();
    let zeros: Vec<usize> = if zeros_too { (0..n).filter(|&i| !bits[i]).collect() } else { vec![] };
    let mut t = Tally { checked: 0, bad: 0, first: None };
    t.eq("num_bits", 0, b.num_bits(), n);
    t.eq("num_ones", 0, b.num_ones(), ones.len());
    for p in sample_points(n, rng, 600) {
        t.eq("rank1", p, b.rank1(p), Some(ones.partition_point(|&x| x < p)));
        if zeros_too {
            t.eq("rank0", p, b.rank0(p), Some(zeros.partition_point(|&x| x < p)));
        }
        t.eq("access", p, b.access(p), if p < n { Some(bits[p]) } else { None });
    }
    t.eq("rank1", n + 1, b.rank1(n + 1), None);
    for k in sample_points(ones.len(), rng, 600) {
        t.eq("select1", k, b.select1(k), ones.get(k).copied());
    }
    if zeros_too {
        for k in sample_points(zeros.len(), rng, 600) {
            t.eq("select0", k, b.select0(k), zeros.get(k).copied());
        }
    }
    t.line(n)
}

pub fn bigq(t: &[&str]) -> Res {
    if t.len() < 4 {
        return Err("bigq <kind> <n> <seed>".into());
    }
    let n = num(t[2])?;
    let seed = num(t[3])? as u64;
    let mut rng = Rng(seed ^ (n as u64).rotate_left(29) ^ 0x51ed);
    let mode = seed % 4;
    macro_rules! tryb {
        ($e:expr) => {
            match $e {
                Ok(v) => v,
                Err(_) => return Ok("ctor-err".into()),
            }
        };
    }
    Ok(match t[1] {
        "r9" => {
            let bits = rbits(n, &mut rng, mode);
            let r = Rank9Sel::new(BitVector::from_bits(bits.iter().copied()));
            let r = match seed / 4 % 3 { 0 => r, 1 => r.select1_hints(), _ => r.select1_hints().select0_hints() };
            bits_check(&r, &bits, &mut rng, true)
        }
        "da" => {
            let bits = rbits(n, &mut rng, mode);
            bits_check(&DArray::from_bits(bits.iter().copied()).enable_rank().enable_select0(), &bits, &mut rng, true)
        }
        "sa" => {
            let bits = rbits(n, &mut rng, if mode == 2 { 0 } else { mode });
            bits_check(&SArray::from_bits(bits.iter().copied()).enable_rank(), &bits, &mut rng, false)
        }
        "ef" => {
            let gaps = rints(n, &mut rng, 1 + (seed % 20) as u32);
            let mut acc = 0usize;
            let vals: Vec<usize> = gaps.iter().map(|g| { acc += g; acc }).collect();
            let universe = acc + 1;
            let mut b = tryb!(EliasFanoBuilder::new(universe, n));
            tryb!(b.extend(vals.iter().copied()));
            let e = b.build().enable_rank();
            let mut t = Tally { checked: 0, bad: 0, first: None };
            t.eq("len", 0, e.len(), n);
            for k in sample_points(n, &mut rng, 600) {
                t.eq("select", k, e.select(k), vals.get(k).copied());
                if k < n {
                    t.eq("delta", k, e.delta(k), Some(if k == 0 { vals[0] } else { vals[k] - vals[k - 1] }));
                }
            }
            for p in sample_points(universe - 1, &mut rng, 600) {
                let lt = vals.partition_point(|&x| x < p);
                t.eq("rank", p, e.rank(p), Some(lt));
                let le = vals.partition_point(|&x| x <= p);
                t.eq("predecessor", p, e.predecessor(p), if le == 0 { None } else { Some(vals[le - 1]) });
                t.eq("successor", p, e.successor(p), vals.get(lt).copied());
            }
            t.line(n)
        }
        "cv" | "db" | "do" | "ps" => {
            let xs: Vec<usize> = match t[1] {
                "cv" => { let w = 1 + (seed % 64) as u32; (0..n).map(|_| (rng.next() >> (64 - w)) as usize).collect() }
                "ps" => rints(n, &mut rng, 20),
                _ => rints(n, &mut rng, 8 + (seed % 56) as u32),
            };
            let mut t2 = Tally { checked: 0, bad: 0, first: None };
            let pts = sample_points(n, &mut rng, 1500);
            match t[1] {
                "cv" => { let v = tryb!(CompactVector::from_slice(&xs)); t2.eq("len", 0, v.len(), n); for k in pts { t2.eq("get_int", k, v.get_int(k), xs.get(k).copied()); } }
                "db" => { let v = tryb!(DacsByte::from_slice(&xs)); t2.eq("len", 0, v.len(), n); for k in pts { t2.eq("access", k, v.access(k), xs.get(k).copied()); } }
                "do" => { let v = tryb!(DacsOpt::from_slice(&xs, None)); t2.eq("len", 0, v.len(), n); for k in pts { t2.eq("access", k, v.access(k), xs.get(k).copied()); } }
                _ => { let v = tryb!(PrefixSummedEliasFano::from_slice(&xs)); t2.eq("len", 0, v.len(), n); t2.eq("sum", 0, v.sum(), xs.iter().sum::<usize>()); for k in pts { t2.eq("access", k, v.access(k), xs.get(k).copied()); } }
            }
            t2.line(n)
        }
        "wm" | "wmd" => {
            let xs = rints(n, &mut rng, 1 + (seed % 12) as u32);
            let cv = tryb!(CompactVector::from_slice(&xs));
            fn go<B: BAccess + BBuild + NumBits + Rank + Select>(w: &WaveletMatrix<B>, xs: &[usize], rng: &mut Rng) -> String {
                let n = xs.len();
                let mut t = Tally { checked: 0, bad: 0, first: None };
                t.eq("len", 0, w.len(), n);
                for k in sample_points(n, rng, 400) {
                    t.eq("access", k, w.access(k), xs.get(k).copied());
                }
                for _ in 0..12 {
                    let c = xs[rng.below(n as u64) as usize];
                    let occ: Vec<usize> = (0..n).filter(|&i| xs[i] == c).collect();
                    for p in sample_points(n, rng, 60) {
                        t.eq("rank", p, w.rank(p, c), Some(occ.partition_point(|&x| x < p)));
                    }
                    for k in sample_points(occ.len(), rng, 60) {
                        t.eq("select", k, w.select(k, c), occ.get(k).copied());
                    }
                }
                t.line(n)
            }
            if n == 0 { return Ok("ctor-err".into()); }
            if t[1] == "wm" { go(&tryb!(WaveletMatrix::<Rank9Sel>::new(cv)), &xs, &mut rng) } else { go(&tryb!(WaveletMatrix::<DArray>::new(cv)), &xs, &mut rng) }
        }
        _ => return Err(format!("bad bigq kind {}", t[1])),
    })
}
